"""C15 — numeric representations always lie inside their declared spaces.
See DESIGN.md §2 C15."""
from .. import boot  # noqa: F401
import numpy as np

from gym_gridverse import gym as gv_gym
from gym_gridverse.geometry import Orientation, Shape
from gym_gridverse.grid_object import Box, Color, Floor, Hidden, NoneGridObject
from gym_gridverse.outer_env import OuterEnv
from gym_gridverse.representations import observation_representations as orep_mod
from gym_gridverse.representations import representation as rep_mod
from gym_gridverse.representations import state_representations as srep_mod
from gym_gridverse.representations.observation_representations import make_observation_representation
from gym_gridverse.representations.spaces import SpaceType
from gym_gridverse.representations.state_representations import make_state_representation
from gym_gridverse.spaces import ObservationSpace, StateSpace

from .. import compose, enc, gen, repgen, workloads
from ..monitor import call_real, describe_exc, reach

ID = 'C15'
LEVEL = 'exploration'
DEBUG_TOGGLE = True  # runner flips the library debug flag every 97 monitored executions
TECHNIQUE = 'runtime monitoring: direct array-level post-condition (shape, dtype kind, bounds) on every convert() of the real representations, cross-checked against Space.contains and the gym-layer spaces, over sampled/enumerated spaces with every (type, status, colour) object placed in every cell class; every step of shipped trajectories through OuterEnv and GymEnvironment'
LEVEL_TEXT = ('For each space (type subset x colour subset x grid/view shape; quick: seeded sample incl. all singletons, the full set '
              'and each shipped set, thorough: all 255 type subsets) and each of the three representations, every (type, status, '
              'colour) object of the space is placed in every cell class and held by the agent, every agent pose class is used, and '
              'each key of convert(member) is checked by the harness for shape, dtype kind and bounds against representation.space, '
              'which must agree with Space.contains and with the converted gym Dict/Box space; the same at every step of '
              'trajectories of all shipped configs via OuterEnv and GymEnvironment (all three representation names).'
              ' Also: declared lists with repeats / NoneGridObject / Hidden / empty, single-row / single-column / single-cell worlds.')
LEVEL_NOTE = 'Members use declared colours only; shapes >= 2x2 and odd view widths as stated. Trusted: the array comparison.'
SHARDS = {'quick': 4, 'thorough': 16}
BUDGET_S = {'quick': 300, 'thorough': 2400}
RULE = ('case = (space, representation name, member state or observation). non-trivial = member contains an object with the '
        'maximal type index, status or colour of its space, or the agent in a corner; distinct by (space, representation, deep '
        'member encoding).')
ASSUMPTIONS = ['spaces with at least one representable type; NONE colour always declared']
REQUIRED = {'quick': {'convert.state': 3000, 'convert.observation': 3000, 'keys.checked': 20000, 'gym.contains': 3000,
                      'trajectory.steps': 1500, 'spaces': 50, 'switch.reads': 60}}


def check_arrays(ctx, label, rep, d, payload, gym_space=None):
    ok, space = call_real(lambda: rep.space)
    if not ok:
        ctx.violation('bounds', 'space.raises', f'{label}: representation.space raised {describe_exc(space)}', 'rep_case', payload)
        return
    if set(d) != set(space):
        ctx.violation('bounds', 'keys.mismatch', f'{label}: keys {sorted(d)} vs space keys {sorted(space)}', 'rep_case', payload)
        return
    for key, arr in d.items():
        ctx.hit('keys.checked')
        sp = space[key]
        why = None
        if not isinstance(arr, np.ndarray):
            why = f'not an ndarray ({type(arr).__name__})'
        elif arr.shape != sp.lower_bound.shape:
            why = f'shape {arr.shape} != {sp.lower_bound.shape}'
        elif sp.space_type is SpaceType.CONTINUOUS and arr.dtype.kind != 'f':
            why = f'dtype {arr.dtype} in a continuous space'
        elif sp.space_type is not SpaceType.CONTINUOUS and arr.dtype.kind not in 'iu':
            why = f'dtype {arr.dtype} in a {sp.space_type.name} space'
        elif not np.all(np.isfinite(arr)):
            why = 'non-finite values'
        elif np.any(arr < sp.lower_bound) or np.any(arr > sp.upper_bound):
            idx = np.argwhere((arr < sp.lower_bound) | (arr > sp.upper_bound))[0]
            why = (f'value {arr[tuple(idx)]} at {tuple(int(i) for i in idx)} outside '
                   f'[{sp.lower_bound[tuple(idx)]}, {sp.upper_bound[tuple(idx)]}]')
        okc, member = call_real(sp.contains, arr) if isinstance(arr, np.ndarray) else (True, False)
        if why:
            ctx.violation('bounds', f'{key}.outside_space', f'{label}: key {key!r}: {why}', 'rep_case', payload)
        if okc and bool(member) != (why is None):
            ctx.violation('bounds', f'{key}.contains_disagrees', f'{label}: Space.contains -> {member} but direct check says '
                          f'{"inside" if why is None else why}', 'rep_case', payload)
    if gym_space is not None:
        ctx.hit('gym.contains')
        okg, inside = call_real(gym_space.contains, d)
        if not okg or not inside:
            ctx.violation('bounds', 'gym.space_rejects', f'{label}: the gym-layer space rejects the representation '
                          f'({inside if okg else describe_exc(inside)})', 'rep_case', payload)


def space_sweep(ctx, types, colors, shape, view, idx):
    h, w = shape
    vh, vw = view
    # on purpose the *same* list objects are handed to both spaces (and kept by the harness): nobody may modify them
    types_given, colors_given = list(types), list(colors)
    # Hidden exists in observations only (a state space naming it is refused with ValueError)
    ss = StateSpace(Shape(h, w), types_given if Hidden not in types else [t for t in types if t is not Hidden], colors_given)
    os_ = ObservationSpace(Shape(vh, vw), types_given, colors_given)
    objs = repgen.dedup(repgen.member_objects([t for t in types if t is not Hidden], colors))
    obs_objs = objs + [Hidden()]
    helds = repgen.dedup(objs + [NoneGridObject()])
    rng = gen.rng_for('C15', ctx.seed, idx)
    spec = {'types': [t.__name__ for t in types], 'colors': [c.name for c in colors], 'shape': [h, w], 'view': [vh, vw]}
    ctx.hit('spaces')
    for name in repgen.NAMES:
        # a state space without any declared type has no member (every cell holds an object): nothing is demanded of it
        ok, srep = call_real(make_state_representation, name, ss) if objs else (True, None)
        ok2, orep = call_real(make_observation_representation, name, os_)
        if not ok or not ok2:
            bad = srep if not ok else orep
            ctx.violation('bounds', 'make_representation.raises', f'{spec} {name}: {describe_exc(bad)}', 'rep_case', dict(spec, rep=name))
            continue
        sgym = gv_gym.outer_space_to_gym_space(srep.space) if srep is not None else None
        ogym = gv_gym.outer_space_to_gym_space(orep.space)
        # every object in every cell class, every pose class, every held item
        poses = [(y, x, o) for (y, x) in repgen.cell_classes(h, w) for o in gen.ORIENTATIONS]
        k = 0
        for obj in objs:
            for (cy, cx) in repgen.cell_classes(h, w):
                k += 1
                rows = repgen.fill_grid(rng, h, w, objs)
                rows[cy][cx] = repgen.copy_obj(obj)
                y, x, o = poses[k % len(poses)]
                held = repgen.copy_obj(helds[k % len(helds)])
                state = repgen.make_state(rows, y, x, o, held)
                payload = dict(spec, rep=name, kind='state', member=enc.state_to_json(state))
                okc, d = call_real(srep.convert, state)
                ctx.ev()
                ctx.hit('convert.state')
                if not okc:
                    ctx.violation('bounds', 'convert.raises', f'{spec} {name}: state convert raised {describe_exc(d)}', 'rep_case', payload)
                    continue
                check_arrays(ctx, f'{spec} {name} state', srep, d, payload, sgym)
                ctx.nontrivial((enc.jdump(spec), name, 's', enc.es(state)))
        k = 0
        for obj in obs_objs:
            for (cy, cx) in repgen.cell_classes(vh, vw):
                k += 1
                rows = repgen.fill_grid(rng, vh, vw, obs_objs)
                rows[cy][cx] = repgen.copy_obj(obj)
                held = repgen.copy_obj(helds[k % len(helds)])
                obs = repgen.make_observation(rows, view, held)
                payload = dict(spec, rep=name, kind='observation', member=enc.state_to_json(obs))
                okc, d = call_real(orep.convert, obs)
                ctx.ev()
                ctx.hit('convert.observation')
                if not okc:
                    ctx.violation('bounds', 'convert.raises', f'{spec} {name}: observation convert raised {describe_exc(d)}', 'rep_case', payload)
                    continue
                check_arrays(ctx, f'{spec} {name} observation', orep, d, payload, ogym)
                ctx.nontrivial((enc.jdump(spec), name, 'o', enc.es(obs)))
    if types_given != list(types) or colors_given != list(colors):
        ctx.violation('bounds', 'space.modifies_declared_lists', f'{spec}: building spaces/representations modified the lists of declared '
                      f'types/colours passed in ({[t.__name__ for t in types_given]}, {[c.name for c in colors_given]})', 'rep_case',
                      dict(spec, rep='default', kind='state'))
    if idx % 17 == 0:
        ctx.sample('space', spec)


def trajectories(ctx, seeds, steps):
    job = 0
    for name, path, data in compose.shipped_configs(include_examples=False):
        for s in range(seeds):
            job += 1
            if not ctx.mine(job):
                continue
            if ctx.out_of_time(0.95):
                continue
            inner = compose.factory_env(data)
            inner.set_seed(ctx.seed * 100 + s)
            rep_name = repgen.NAMES[job % 3]
            orep = make_observation_representation(rep_name, inner.observation_space)
            srep = make_state_representation(rep_name, inner.state_space) if inner.state_space.can_be_represented else None
            outer = OuterEnv(inner, state_representation=srep, observation_representation=orep)
            genv = gv_gym.GymEnvironment(outer)
            prng = gen.rng_for('C15traj', name, s)
            ok, obs = call_real(genv.reset)
            for t in range(steps):
                if not ok:
                    ctx.violation('bounds', 'gym.raises', f'{name}: {describe_exc(obs)}', 'traj_case', {'config': name, 'seed': s, 'rep': rep_name})
                    break
                ctx.ev()
                ctx.hit('trajectory.steps')
                payload = {'config': name, 'seed': s, 'rep': rep_name, 't': t}
                check_arrays(ctx, f'{name} {rep_name} t={t} observation', orep, obs, payload, genv.observation_space)
                if srep is not None:
                    check_arrays(ctx, f'{name} {rep_name} t={t} state', srep, genv.state, payload, genv.state_space)
                if t in (steps // 4, steps // 2, (3 * steps) // 4, steps // 2 + 1):
                    # switching the representation mid-episode (every ordered pair over the runs): what is read *right after*
                    # the switch, before any step or reset, must already lie in the new representation's space
                    rep_name2 = prng.choice([n for n in repgen.NAMES if n != rep_name])
                    genv.set_observation_representation(rep_name2)
                    orep = genv.outer_env.observation_representation
                    if srep is not None:
                        genv.set_state_representation(rep_name2)
                        srep = genv.outer_env.state_representation
                    ctx.addset('switches', f'{rep_name}->{rep_name2}')
                    rep_name = rep_name2
                    payload = {'config': name, 'seed': s, 'rep': rep_name, 't': t}
                    for reader_name, reader in (('outer_env.observation', lambda: genv.outer_env.observation),
                                                ('outer_env.observation (second read)', lambda: genv.outer_env.observation)):
                        ok_r, now = call_real(reader)
                        if ok_r:
                            ctx.hit('switch.reads')
                            check_arrays(ctx, f'{name} {rep_name} t={t} {reader_name} right after the switch', orep, now, payload,
                                         genv.observation_space)
                    if srep is not None:
                        ok_r, now = call_real(lambda: genv.state)
                        if ok_r:
                            check_arrays(ctx, f'{name} {rep_name} t={t} state right after the switch', srep, now, payload, genv.state_space)
                a = prng.randrange(genv.action_space.n)
                ok, res = call_real(genv.step, a)
                if ok:
                    obs, r, done, info = res
                    if done:
                        ok, obs = call_real(genv.reset)
                else:
                    obs = res
            ctx.addset('configs', name)


def run(ctx):
    with reach(ctx, [rep_mod.default_grid_object_representation_space, rep_mod.no_overlap_grid_object_representation_space,
                     rep_mod.compact_grid_object_representation_space, rep_mod.no_overlap_grid_object_representation_convert,
                     rep_mod.compact_grid_object_representation_convert, srep_mod.AgentStateRepresentation.convert,
                     srep_mod.CompactGridObjectStateRepresentation.__init__,
                     orep_mod.CompactGridObjectObservationRepresentation.__init__, gv_gym.outer_space_to_gym_space]):
        cases = repgen.space_cases(ctx, 120)
        for i, (types, colors, shape, view) in enumerate(cases):
            if not ctx.mine(i):
                continue
            if ctx.out_of_time(0.7):
                ctx.add('spaces_skipped_for_time')
                continue
            space_sweep(ctx, types, colors, shape, view, i)
        trajectories(ctx, ctx.pick(1, 16), ctx.pick(80, 400))


def replay(ctx, kind, payload):
    if kind == 'traj_case':
        trajectories(ctx, 1, payload.get('t', 50) + 2)
        return
    types = [compose.object_type(n) for n in payload['types']]
    colors = [Color[c] for c in payload['colors']]
    if payload.get('kind') == 'state':
        rep = make_state_representation(payload['rep'], StateSpace(Shape(*payload['shape']), types, colors))
        member = enc.state_from_json(payload['member'])
    else:
        rep = make_observation_representation(payload['rep'], ObservationSpace(Shape(*payload['view']), types, colors))
        member = enc.observation_from_json(payload['member'])
    ok, d = call_real(rep.convert, member)
    ctx.ev()
    if ok:
        check_arrays(ctx, 'replay', rep, d, payload, gv_gym.outer_space_to_gym_space(rep.space))
    else:
        ctx.violation('bounds', 'convert.raises', describe_exc(d), kind, payload)
