"""C09 — conservation of objects; pick-and-drop does exactly pick / drop / swap.
See DESIGN.md §2 C09."""
from .. import boot  # noqa: F401
import collections

import numpy as np

from gym_gridverse.action import Action
from gym_gridverse.envs import transition_functions as transition_fs
from gym_gridverse.grid import Grid
from gym_gridverse.grid_object import (
    Box,
    Color,
    Door,
    Exit,
    Floor,
    Key,
    MovingObstacle,
    NoneGridObject,
    Wall,
)

from .. import compose, dyndrive, dynmon, enc, gen, refmodel, workloads
from ..monitor import Patch, call_real, reach

ID = 'C09'
LEVEL = 'exploration'
DEBUG_TOGGLE = True  # runner flips the library debug flag every 97 monitored executions
TECHNIQUE = 'runtime monitoring: conservation multiset + full reference model of pick-and-drop at the transition-function hook; offline inventory checker over recorded histories of key-door and obstacle environments'
LEVEL_TEXT = ('Every observed call of every built-in transition function must preserve the multiset {non-floor grid objects} + '
              '{held item} (door status excluded; a faced ACTUATE on a box replaces it by its content), may change only '
              'cells the rules allow (scenery never moves), and pickndrop must equal a reference model predicting the '
              'complete next state. All (held item x front-cell kind x out-of-grid side, with a decoy key on the opposite '
              'edge) combinations are enumerated on 3x3 grids each run; recorded histories of the shipped key-door and '
              'obstacle environments under a goal-directed/random policy mix are checked offline for a constant inventory.'
              ' Also: worlds with several boxes of different contents, equal keys and equal doors stepped through GridWorld.functional_step and compared with the reference cell by cell and content by content.')
LEVEL_NOTE = ('Trusted: refmodel.ref_pickndrop and the multiset definition in dynmon.py; holdable flags are read from the '
              'objects. Random states/chains and histories are sampled.')
SHARDS = {'quick': 4, 'thorough': 16}
BUDGET_S = {'quick': 300, 'thorough': 2400}
RULE = ('case = one observed call of a transition function (alone, in a random chain, or inside an environment step). '
        'non-trivial = PICK_N_DROP/ACTUATE with a front cell that is outside the grid or not plain Floor, or a held item, '
        'or a call of move_obstacles with at least one obstacle; distinct by (function, deep pre-state encoding, action).')
ASSUMPTIONS = ['reference model of pick-and-drop from the statement; multiset ignores door status by definition']
EXHAUSTIVE_NOTE = 'held item (6 kinds) x front cell (11 kinds + outside on 4 sides, decoy key on the opposite edge) x 8 actions x 7 functions on 3x3 grids'
REQUIRED = {'quick': {'functional.steps': 400, 'fn.pickndrop': 3000, 'fn.move_obstacles': 1000, 'fn.actuate_box': 1000, 'exhaustive.cases': 1500,
                      'event.pick': 20, 'event.drop': 20, 'event.swap': 20, 'event.box_opened': 20,
                      'front.outside': 60, 'history.steps': 2000, 'history.event.pick': 3, 'history.event.drop': 1,
                      'history.event.door_opened': 1}}
ASPECTS = ('conservation', 'pickndrop_ref', 'scenery', 'key')


def helds():
    return [
        ('none', lambda: NoneGridObject()),
        ('Key.RED', lambda: Key(Color.RED)),
        ('Key.BLUE', lambda: Key(Color.BLUE)),
        ('Wall', lambda: Wall()),
        ('Box', lambda: Box(Key(Color.GREEN))),
        ('Door', lambda: Door(Door.Status.CLOSED, Color.RED)),
    ]


def exhaustive(ctx):
    kinds = dyndrive.target_kinds()
    h = w = 3
    idx = 0
    for y in range(h):
        for x in range(w):
            for heading in gen.ORIENTATIONS:
                dy, dx = gen.FRONT[heading]
                fy, fx = y + dy, x + dx
                inside = 0 <= fy < h and 0 <= fx < w
                variants = kinds if inside else [('outside', None)]
                for hn, hk in helds():
                    for kn, mk in variants:
                        idx += 1
                        if not ctx.mine(idx):
                            continue
                        s = dyndrive.floor_state(h, w, y, x, heading, hk())
                        if inside:
                            s.grid[fy, fx] = mk()
                        else:
                            # decoy: a key where a wrapped (negative / modulo) index would look
                            s.grid[fy % h, fx % w] = Key(Color.YELLOW)
                            ctx.hit('front.outside')
                        for action in Action:
                            ctx.hit('exhaustive.cases')
                            if action in (Action.PICK_N_DROP, Action.ACTUATE):
                                ctx.nontrivial(('ex', y, x, heading.name, hn, kn, action.name))
                            for name in dynmon.FUNCTIONS:
                                dyndrive.apply_fn(ctx, name, dyndrive.copy_state(s), action)
                        if idx % 61 == 0:
                            ctx.sample('exhaustive', {'agent': [y, x, heading.name], 'held': hn, 'front': kn})


def count_events(ctx):
    def on_call(call):
        if call.exc is not None:
            return
        if call.fn == 'pickndrop' and call.action is Action.PICK_N_DROP:
            held0, held1 = call.pre_enc[1][3], call.post_enc[1][3]
            if held0 != held1:
                if held0[0] == 'NoneGridObject':
                    ctx.hit('event.pick')
                elif held1[0] == 'NoneGridObject':
                    ctx.hit('event.drop')
                else:
                    ctx.hit('event.swap')
            fy, fx = call.pre.front()
            if not call.pre.inside(fy, fx) or type(call.pre.rows[fy][fx]) is not Floor or held0[0] != 'NoneGridObject':
                ctx.nontrivial(('pnd', call.pre_enc))
        elif call.fn == 'actuate_box' and call.diffs:
            ctx.hit('event.box_opened')
            ctx.nontrivial(('box', call.pre_enc))
        elif call.fn == 'move_obstacles':
            if any(e[0] == 'MovingObstacle' for e in call.pre_enc[0][2]):
                ctx.nontrivial(('obst', call.pre_enc))
                if call.diffs:
                    ctx.hit('event.obstacle_moved')
    return on_call


def inventory(state):
    c = collections.Counter()
    for row in state.grid.objects:
        for o in row:
            if type(o) is not Floor:
                c[dynmon.strip_status(enc.eo(o))] += 1
    if type(state.agent.grid_object) not in (NoneGridObject, Floor):
        c[dynmon.strip_status(enc.eo(state.agent.grid_object))] += 1
    return c


def history_checker(ctx):
    """offline checker over a recorded history: constant inventory (one key in
    grid+hand, constant obstacle count, one door, one exit) at every step"""
    def factory(name, seed, pol):
        rec = {'inv': None, 'trace': []}

        def per_step(state, action, nxt, reward, done, t):
            ctx.hit('history.steps')
            inv = inventory(nxt)
            if state is None:  # reset: new episode, new inventory
                rec['inv'] = inv
                rec['trace'] = []
                return
            rec['trace'].append(action.name)
            if inv != rec['inv']:
                lost, gained = rec['inv'] - inv, inv - rec['inv']
                ctx.violation('conservation', 'history.inventory_changed',
                              f'{name} seed={seed} t={t}: inventory changed after {action.name}: lost {dict(lost)} gained {dict(gained)}',
                              'history', {'config': name, 'seed': seed, 'policy': pol, 't': t})
                rec['inv'] = inv
            h0, h1 = enc.eo(state.agent.grid_object), enc.eo(nxt.agent.grid_object)
            if h0 != h1:
                ctx.hit('history.event.pick' if h0[0] == 'NoneGridObject' else 'history.event.drop')
            d0 = [o.state for row in state.grid.objects for o in row if isinstance(o, Door)]
            d1 = [o.state for row in nxt.grid.objects for o in row if isinstance(o, Door)]
            if d0 != d1:
                ctx.hit('history.event.door_opened')
        return per_step
    return factory


def goal_histories(ctx, sink, seeds, steps):
    job = 0
    for name, path, data in compose.shipped_configs():
        wanted = ['keydoor.5x5', 'dynamic_obstacles.5x5'] + (['keydoor.7x7', 'dynamic_obstacles.7x7'] if ctx.thorough else [])
        if not any(wn in name for wn in wanted):
            continue
        for s in range(seeds):
            job += 1
            if not ctx.mine(job):
                continue
            if ctx.out_of_time(0.95):
                ctx.add('histories_skipped_for_time')
                continue
            env = compose.factory_env(data)
            seed = ctx.seed * 1000 + s
            env.set_seed(seed)
            ok, state = call_real(env.functional_reset)
            if not ok:
                continue
            pol = workloads.GoalMixPolicy(sink=sink, max_nodes=2500 if 'keydoor' in name else 400, ctx=ctx)
            prng = gen.rng_for('C09goal', name, seed)
            per_step = history_checker(ctx)(name, seed, 'goal_mix')
            per_step(None, None, state, 0.0, False, -1)
            dyndrive.drive_env(ctx, env, state, steps, pol, prng, per_step)
            ctx.add('goal_histories')
            ctx.add('plans', pol.plans)
            ctx.addset('configs', name)


def functional_conservation(ctx, n):
    """the same conservation through GridWorld.functional_step (copy first, then the chain): worlds holding several boxes with
    different contents, equal keys and equal doors in several cells - the next state is, cell by cell and content by content,
    what the reference predicts from the input state (a copy that merges equal-looking objects would not be)"""
    names = ['move_agent', 'turn_agent', 'actuate_door', 'actuate_box', 'pickndrop']
    chain = [{'name': n_} for n_ in names]
    for k in range(n):
        rng = gen.rng_for('C09functional', ctx.seed, ctx.shard, k)
        h, w = rng.randint(2, 5), rng.randint(2, 5)
        colors = [Color.NONE, Color.RED, Color.BLUE]
        contents = [Key(Color.RED), Key(Color.BLUE), Floor(), Wall(), Door(Door.Status.CLOSED, Color.RED), Box(Key(Color.BLUE)), Exit()]
        state, _ = gen.rand_state(rng, [Floor, Wall, Key, Door], colors, shape=(h, w), p_floor=0.5)
        cells = [(y, x) for y in range(h) for x in range(w)]
        for (y, x) in rng.sample(cells, min(len(cells), rng.randint(2, 5))):
            state.grid[y, x] = Box(enc.obj_from_json(enc.obj_to_json(rng.choice(contents))))
        if rng.random() < 0.3:
            state.agent.grid_object = Box(Key(Color.RED))
        env = compose.assemble((h, w), [Floor, Wall, Door, Key, Box, Exit], list(Color), list(Action),
                               compose.build('transition', {'name': 'chain', 'transition_functions': chain}),
                               compose.build('reward', {'name': 'living_reward'}), compose.build('terminating', {'name': 'reach_exit'}),
                               compose.build('observation', {'name': 'fully_transparent', 'area': [[-1, 0], [-1, 1]]}),
                               gen.Area((-1, 0), (-1, 1)), lambda rng=None, s=state: s)
        cur = state
        for t in range(4):
            a = rng.choice(list(Action))
            model = refmodel.ref_chain(cur, names, a)
            before = enc.es(cur)
            ok, res = call_real(env.functional_step, cur, a)
            ctx.ev()
            ctx.hit('functional.steps')
            if not ok:
                break
            if enc.es(cur) != before or enc.es(res[0]) != model:
                diff = [(i // w, i % w) for i, (p_, q_) in enumerate(zip(enc.es(res[0])[0][2], model[0][2])) if p_ != q_]
                ctx.violation('conservation', 'functional_step.not_the_reference',
                              f'functional_step({a.name}) on a world with several boxes: the next state differs from the reference at '
                              f'cells {diff[:5]} (e.g. {enc.eo(res[0].grid[diff[0]]) if diff else "agent / held item"}) - objects were '
                              f'lost, duplicated or merged by the copy', 'functional_case', {'k': [ctx.seed, ctx.shard, k]})
                break
            cur = res[0]
        ctx.nontrivial(('functional', enc.es(state)))


def run(ctx):
    from .. import custom_objects
    custom_objects.enable(cleats=True)  # user-defined object types join the generators' pool (flags, not types, must decide)
    sink = dynmon.Sink(ctx, ASPECTS)
    sink.on_call = count_events(ctx)
    with Patch() as patch, reach(ctx, [transition_fs.pickndrop, transition_fs.move_obstacles, transition_fs.actuate_box]):
        dynmon.install(patch, sink)
        exhaustive(ctx)
        for state, cat, rng in dyndrive.random_function_sweep(ctx, 'C09sweep', ctx.pick(160, 1600)):
            pass
        ctx.sample('sweep_state', {'state': enc.render(state), 'category': cat})
        functional_conservation(ctx, ctx.pick(200, 3000))
        goal_histories(ctx, sink, ctx.pick(3, 20), ctx.pick(150, 500))
        dyndrive.shipped_histories(ctx, 'C09hist', ['keydoor', 'dynamic_obstacles', 'teleport', 'crossing'],
                                   ctx.pick(1, 6), ctx.pick(150, 600), history_checker(ctx),
                                   policies=['interactive', 'random'])
        ctx.extra['exhaustive'] = True


def replay(ctx, kind, payload):
    from .. import custom_objects
    custom_objects.enable(cleats=True)
    if kind == 'functional_case':
        ctx.seed, ctx.shard = payload['k'][0], payload['k'][1]
        functional_conservation(ctx, payload['k'][2] + 1)
    elif kind == 'fn_case':
        dynmon.replay_call(ctx, payload, ASPECTS)
    elif kind == 'history':
        sink = dynmon.Sink(ctx, ASPECTS)
        with Patch() as patch:
            dynmon.install(patch, sink)
            data = dict((n, d) for n, _, d in compose.shipped_configs()).get(payload['config'])
            if data is None:
                return
            env = compose.factory_env(data)
            env.set_seed(payload['seed'])
            ok, state = call_real(env.functional_reset)
            per_step = history_checker(ctx)(payload['config'], payload['seed'], payload['policy'])
            per_step(None, None, state, 0.0, False, -1)
            if payload['policy'] == 'goal_mix':
                pol = workloads.GoalMixPolicy(sink=sink, max_nodes=3000 if 'keydoor' in payload['config'] else 600)
                prng = gen.rng_for('C09goal', payload['config'], payload['seed'])
            else:
                pol = workloads.POLICIES[payload['policy']]
                prng = gen.rng_for('C09hist', payload['config'], payload['seed'], payload['policy'])
            dyndrive.drive_env(ctx, env, state, payload['t'] + 2, pol, prng, per_step)
