#!/usr/bin/env python3
"""tools/benign_sel.py <benign id> ...  - runs, for each behaviour-preserving change, the checks whose subject the patch touches
(by file), plus the check of the property it was written for; results accumulate in benign/<id>/meta.json (tools/benign.py
with --props all runs every check)."""
import json
import os
import re
import subprocess
import sys

HERE = os.path.dirname(os.path.dirname(os.path.abspath(__file__)))
MAP = [
    (r'transition_functions|envs/utils', 'C01,C02,C03,C04,C08,C09,C10,C11,C12,C14,C17'),
    (r'reset_functions|design\.py|/rng\.py', 'C01,C02,C03,C04,C11,C13,C14,C17,C20'),
    (r'observation_functions|visibility_functions|raytracing|/grid\.py|geometry\.py', 'C01,C03,C04,C05,C06,C07,C08,C17,C18,C19'),
    (r'representations/', 'C04,C15,C16,C20'),
    (r'/gym\.py|outer_env', 'C04,C15,C17,C20'),
    (r'/spaces\.py', 'C01,C03,C15,C16,C17,C20'),
    (r'inner_env|gridworld', 'C01,C02,C03,C04,C12,C14,C17,C20'),
    (r'yaml/|registry|custom\.py|functions\.py', 'C02,C17,C20'),
    (r'reward_functions|terminating_functions', 'C01,C03,C12,C14,C17'),
    (r'grid_object|agent\.py|state\.py|observation\.py|debugging|fast_copy', 'C01,C03,C05,C06,C09,C10,C12,C16'),
]
for bid in sys.argv[1:]:
    patch = open(os.path.join(HERE, 'benign', bid, 'patch.diff')).read()
    props = set()
    for f in re.findall(r'^\+\+\+ b/(.*)$', patch, re.M):
        for pat, ps in MAP:
            if re.search(pat, '/' + f):
                props |= set(ps.split(','))
    meta = json.load(open(os.path.join(HERE, 'benign', bid, 'meta.json')))
    if meta.get('property'):
        props.add(meta['property'])
    done = {k.split('.')[0] for k in meta.get('checks', {})}
    todo = sorted(props - done)
    if not todo:
        print(bid, 'already done', flush=True)
        continue
    r = subprocess.run(['python3', os.path.join(HERE, 'tools', 'benign.py'), bid, '--props', ','.join(todo)],
                       capture_output=True, text=True)
    print(r.stdout.strip()[-900:], flush=True)
