"""Generators and helpers shared by the observation properties (C05-C07)."""
from . import boot  # noqa: F401

from gym_gridverse.agent import Agent
from gym_gridverse.envs import observation_functions as observation_fs
from gym_gridverse.envs import visibility_functions as visibility_fs
from gym_gridverse.geometry import Area, Orientation, Position
from gym_gridverse.grid import Grid
from gym_gridverse.grid_object import (
    Beacon,
    Box,
    Color,
    Door,
    Exit,
    Floor,
    Key,
    MovingObstacle,
    NoneGridObject,
    Telepod,
    Wall,
)
from gym_gridverse.state import State

from . import enc, gen
from .refmodel import TURN_RIGHT

DETERMINISTIC = ['fully_transparent', 'partially_occluded', 'raytracing']
ALL = DETERMINISTIC + ['stochastic_raytracing']
PARAMETRISED = ['raytracing@rel0.5', 'raytracing@abs2', 'raytracing@rel1.0']


def build_obs(name, area, via_visibility=False):
    """observation function through the real factory"""
    if name == 'custom_cone':
        return observation_fs.factory('from_visibility', area=area, visibility_function=ConeVisibility())
    if '@' in name:  # parametrised visibility, e.g. raytracing@rel0.5 / raytracing@abs2
        base, par = name.split('@')
        kw = ({'absolute_counts': False, 'threshold': float(par[3:])} if par.startswith('rel')
              else {'absolute_counts': True, 'threshold': int(par[3:])})
        vis = visibility_fs.factory(base, **kw)
        return observation_fs.factory('from_visibility', area=area, visibility_function=vis)
    if via_visibility:
        vis = visibility_fs.factory(name)
        return observation_fs.factory('from_visibility', area=area, visibility_function=vis)
    return observation_fs.factory(name, area=area)


def supported(name, area):
    """partially_occluded documents NotImplementedError unless the agent is on
    the bottom row of the view"""
    return name != 'partially_occluded' or area.ymax == 0


def distinct_objects():
    """pairwise distinct (by deep encoding) transparent objects, so that any
    misplaced cell is detectable and ray tracing shows everything"""
    out = []
    for c in Color:
        out += [Key(c), Exit(c), Beacon(c), Telepod(c), Door(Door.Status.OPEN, c)]
    out += [MovingObstacle(), Floor(), Box(Key(Color.RED)), Box(Floor())]
    return out


def distinct_grid(h, w, opaque_every=0):
    objs = distinct_objects()
    rows = []
    k = 0
    for y in range(h):
        row = []
        for x in range(w):
            o = objs[k % len(objs)]
            k += 1
            row.append(enc.obj_from_json(enc.obj_to_json(o)))
            if opaque_every and (y * w + x) % opaque_every == opaque_every - 1:
                row[-1] = Wall() if (y + x) % 2 else Door(Door.Status.CLOSED, Color.BLUE)
        rows.append(row)
    return Grid(rows)


def rand_case(rng, hmax=9, wmax=9, maxext=5, types=None):
    """(state, area): any grid, any pose class, any view area containing the origin"""
    types = types or gen.GRID_TYPES
    state, cat = gen.rand_state(rng, types, gen.COLORS, hmax=hmax, wmax=wmax, p_floor=rng.choice([0.3, 0.6, 0.85]))
    area = gen.rand_area(rng, maxext=maxext, require_ymax0=rng.random() < 0.5)
    return state, area, cat


def areas_within(lo, hi):
    """all areas [(y0,y1),(x0,x1)] with lo<=y0<=0<=y1<=hi etc. containing the origin"""
    out = []
    for y0 in range(lo, 1):
        for y1 in range(0, hi + 1):
            for x0 in range(lo, 1):
                for x1 in range(0, hi + 1):
                    out.append(Area((y0, y1), (x0, x1)))
    return out


def rotate_state_cw(state):
    """the whole world rotated by a clockwise quarter turn, written with plain
    index arithmetic: cell (y, x) -> (x, h-1-y); heading turns right"""
    h, w = len(state.grid.objects), len(state.grid.objects[0])
    rows = [[None] * h for _ in range(w)]
    for y in range(h):
        for x in range(w):
            rows[x][h - 1 - y] = enc.obj_from_json(enc.obj_to_json(state.grid.objects[y][x]))
    p = state.agent.position
    agent = Agent(Position(p.x, h - 1 - p.y), TURN_RIGHT[state.agent.orientation],
                  enc.obj_from_json(enc.obj_to_json(state.agent.grid_object)))
    return State(Grid(rows), agent)


def area_json(area):
    return [[area.ymin, area.ymax], [area.xmin, area.xmax]]


def area_from_json(a):
    return Area((a[0][0], a[0][1]), (a[1][0], a[1][1]))


def history_state(rng, hmax=7, wmax=7):
    """a state *reached through the real dynamics*: random door/box/key-rich state, then 1-5 real steps of the
    full built-in chain biased towards ACTUATE / PICK_N_DROP on whatever is in front (doors get opened in place,
    boxes replaced by their content, keys change hands).  Objects of the result are the ones the dynamics mutated."""
    import numpy as np
    from gym_gridverse.action import Action
    from gym_gridverse.envs import transition_functions as transition_fs
    types = [Floor, Wall, Door, Key, Box, Exit, MovingObstacle, Telepod, Beacon]
    state, cat = gen.rand_state(rng, types, gen.COLORS, hmax=hmax, wmax=wmax, p_floor=0.4)
    reg = transition_fs.transition_function_registry
    names = ['move_agent', 'turn_agent', 'actuate_door', 'actuate_box', 'pickndrop', 'move_obstacles', 'teleport']
    nprng = np.random.default_rng(rng.randrange(2**32))
    for _ in range(rng.randint(1, 5)):
        fy, fx = gen.front_of(state)
        if gen.in_grid(state, fy, fx) and rng.random() < 0.5:
            # put something actionable in front so that in-place updates actually happen
            c = rng.choice(gen.COLORS)
            state.grid[fy, fx] = rng.choice([Door(Door.Status.CLOSED, c), Door(Door.Status.LOCKED, c), Box(Door(Door.Status.CLOSED, c)),
                                             Key(c)])
            if rng.random() < 0.5:
                state.agent.grid_object = Key(c)
            action = rng.choice([Action.ACTUATE, Action.ACTUATE, Action.PICK_N_DROP])
        else:
            action = rng.choice(list(Action))
        try:
            state = transition_fs.transition_with_copy(
                lambda s, a, rng=None: [reg[n](s, a, rng=rng) for n in names], state, action, rng=nprng)
        except Exception:
            break
    return state


def rebuilt(state):
    """freshly constructed deep copy (through JSON): carries no history"""
    return enc.state_from_json(enc.state_to_json(state))


class ConeVisibility:
    """a user-defined, deterministic, egocentric visibility function (cf. examples/conic_visibility.py) that keeps one mask
    per view shape and returns that same array on every call - callers must not modify it"""

    def __init__(self):
        self.masks = {}

    def __call__(self, grid, position, *, rng=None):
        import numpy as np
        key = (grid.shape.height, grid.shape.width, position.y, position.x)
        if key not in self.masks:
            h, w = grid.shape.height, grid.shape.width
            m = np.zeros((h, w), dtype=bool)
            for y in range(h):
                for x in range(w):
                    m[y, x] = abs(x - position.x) <= abs(position.y - y)
            self.masks[key] = m
            self.pristine = getattr(self, 'pristine', {})
            self.pristine[key] = m.copy()
        return self.masks[key]

    def intact(self):
        import numpy as np
        return all(np.array_equal(self.masks[k], self.pristine[k]) for k in self.masks)


def rand_area_excluding_origin(rng, maxext=4):
    """a view area that does not contain the agent's own cell (a look-ahead / rear / side window)"""
    while True:
        ymin = rng.randint(-maxext, maxext)
        ymax = ymin + rng.randint(0, 3)
        xmin = rng.randint(-maxext, maxext)
        xmax = xmin + rng.randint(0, 3)
        if not (ymin <= 0 <= ymax and xmin <= 0 <= xmax):
            return Area((ymin, ymax), (xmin, xmax))


LARGE_AREAS = [((-14, 0), (-7, 7)), ((-6, 0), (-15, 15)), ((-30, 0), (-3, 3)), ((-16, 0), (-8, 8)), ((-7, 7), (-7, 7)),
               ((-15, 0), (0, 15))]
