#!/bin/bash
# tools/run_all.sh [tier] [seed ...]   - runs every check, prints one line per (property, seed)
HERE="$(cd "$(dirname "${BASH_SOURCE[0]}")/.." && pwd)"
cd "$HERE" || exit 2
TIER="${1:-quick}"; shift
SEEDS="${*:-0}"
rc=0
for seed in $SEEDS; do
  for p in C01 C02 C03 C04 C05 C06 C07 C08 C09 C10 C11 C12 C13 C14 C15 C16 C17 C18 C19 C20; do
    out=$(VERIF_SEED=$seed GV_NO_EVIDENCE="${GV_NO_EVIDENCE:-}" ./check $p --tier "$TIER" 2>&1); code=$?
    line=$(echo "$out" | grep -E "^$p tier=" | tail -1)
    echo "[$code] seed=$seed $line"
    if [ $code -ne 0 ]; then rc=1; echo "$out" | grep -E "VIOLATION|INCONCLUSIVE|monitor=" | head -8 | cut -c1-400; fi
  done
done
exit $rc
