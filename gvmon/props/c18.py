"""C18 — geometry is a consistent algebra of quarter turns and rigid motions.
See DESIGN.md §2 C18."""
from .. import boot  # noqa: F401
import collections
import itertools
import math

from gym_gridverse.action import Action
from gym_gridverse.envs import utils as envs_utils
from gym_gridverse import geometry as G
from gym_gridverse.geometry import Area, Orientation, Position, Transform
from gym_gridverse.grid import Grid
from gym_gridverse.grid_object import Floor, Wall

from .. import enc, gen, obsgen
from ..monitor import call_real, describe_exc, reach

ID = 'C18'
LEVEL = 'exploration'
TECHNIQUE = 'runtime monitoring: the algebraic laws themselves evaluated with the real operators on exhaustive small coordinate ranges and on random integers up to and beyond 64 bits; a table-driven reference for the next-position helper'
LEVEL_TEXT = ('Each law (group axioms of Orientation, linear + isometric action on positions, associativity/identity/inverse of '
              'Transform, compatibility of composed actions on positions, areas and orientations, area image = image of its '
              'positions, grid rotation preserving the multiset and identities of objects and undone by the inverse rotation, '
              'get_next_position = pose algebra) is evaluated with both sides computed by the real operators: exhaustively over '
              'all orientation triples and coordinates in [-3,3], and on random integers up to +-10^18 and beyond 64 bits, areas '
              'with negative corners, grid shapes 1x1..6x7. Universally quantified over unbounded integers: held on K instances.'
              ' Also: spanned areas, rotations leave their operand and earlier results alone, products with instances of user subclasses have the value of the plain product.')
LEVEL_NOTE = ('No claim beyond the instances evaluated. The reference for get_next_position and the heading tables are the '
              'harness\' own (refmodel.py).')
SHARDS = {'quick': 2, 'thorough': 8}
BUDGET_S = {'quick': 300, 'thorough': 2400}
RULE = ('case = one instance of one law. non-trivial = involves a non-identity orientation or a non-zero position; distinct '
        'by (law, operands).')
ASSUMPTIONS = ['laws as listed in DESIGN.md §2 C18']
EXHAUSTIVE_NOTE = 'orientation laws over all 4^3 triples; position/transform laws over all coordinates in [-3,3] (pairs) / [-2,2] (triples of transforms with all orientations)'
REQUIRED = {'quick': {'law.orientation_group': 64, 'law.linear': 1000, 'law.isometry': 500, 'law.transform_assoc': 1000,
                      'law.transform_inverse': 200, 'law.transform_action': 1000, 'law.area_image': 500, 'law.area_spanned': 1000,
                      'law.grid_rotation': 200, 'law.next_position': 400, 'law.bigint': 500, 'law.mutation_history': 1000, 'law.inplace_operators': 500}}
O = [Orientation.F, Orientation.R, Orientation.B, Orientation.L]


def fail(ctx, law, msg, payload):
    ctx.violation('algebra', 'law.' + law, f'{law}: {msg}', 'law_case', dict(payload, law=law))


def law(ctx, name, cond_fn, desc_fn, payload, nontrivial=True):
    describe = desc_fn

    def desc_fn():  # the description evaluates library expressions too: it may fail where the law does
        try:
            return describe()
        except Exception as e:  # noqa
            return f'(operands {payload}; describing them raised {type(e).__name__}: {e})'
    ctx.ev()
    ctx.hit('law.' + name)
    try:
        ok = cond_fn()
    except Exception as e:
        from ..monitor import raised_by_harness
        # "unsupported operand type(s)" is raised by the interpreter at the harness' expression when the library's operator
        # methods return NotImplemented: that is the library refusing the operation, not a harness error
        if raised_by_harness(e) and not (isinstance(e, TypeError) and 'unsupported operand type' in str(e)):
            raise
        fail(ctx, name, f'raised {describe_exc(e)} on {desc_fn()}', payload)
        return
    if not ok:
        fail(ctx, name, desc_fn(), payload)
    if nontrivial:
        ctx.nontrivial((name, enc.jdump(payload)))


def orientation_laws(ctx):
    for a, b, c in itertools.product(O, repeat=3):
        pl = {'o': [a.name, b.name, c.name]}
        law(ctx, 'orientation_group', lambda: isinstance(a * b, Orientation) and (a * b) * c == a * (b * c)
            and Orientation.F * a == a and a * Orientation.F == a and a * (-a) == Orientation.F and (-a) * a == Orientation.F,
            lambda: f'closure/associativity/identity/inverse fails for {a.name},{b.name},{c.name}', pl)
    for a in O:
        law(ctx, 'orientation_group', lambda: a * a * a * a == Orientation.F and (a * a == Orientation.F) == (a in (Orientation.F, Orientation.B)),
            lambda: f'order of {a.name} is wrong', {'o': [a.name]})
    # cyclic: R generates the group; L is its inverse
    law(ctx, 'orientation_group', lambda: len({Orientation.R, Orientation.R * Orientation.R, Orientation.R * Orientation.R * Orientation.R,
                                               Orientation.R * Orientation.R * Orientation.R * Orientation.R}) == 4
        and -Orientation.R == Orientation.L and Orientation.R * Orientation.R == Orientation.B,
        lambda: 'RIGHT does not generate a cyclic group of order 4', {'o': ['RIGHT']})


def position_laws(ctx, coords):
    for o in O:
        for (py, px, qy, qx) in coords:
            p, q = Position(py, px), Position(qy, qx)
            pl = {'o': o.name, 'p': [py, px], 'q': [qy, qx]}
            law(ctx, 'linear', lambda: o * (p + q) == (o * p) + (o * q) and o * (-p) == -(o * p) and o * (p - q) == (o * p) - (o * q),
                lambda: f'{o.name} is not linear on {p},{q}', pl)
            law(ctx, 'isometry', lambda: abs((o * p).y) + abs((o * p).x) == abs(py) + abs(px)
                and (o * p).y ** 2 + (o * p).x ** 2 == py ** 2 + px ** 2
                and Position.manhattan_distance(o * p, o * q) == Position.manhattan_distance(p, q),
                lambda: f'{o.name} does not preserve norms of {p} / distance to {q}', pl)
            for o2 in O:
                law(ctx, 'linear', lambda: (o * o2) * p == o * (o2 * p),
                    lambda: f'({o.name}*{o2.name})*p != {o.name}*({o2.name}*p) for {p}', dict(pl, o2=o2.name))


def val(v):
    """field-by-field value of a geometry object, whatever (sub)class carries it"""
    if isinstance(v, Transform):
        return ('T', int(v.position.y), int(v.position.x), v.orientation.name)
    if isinstance(v, Position):
        return ('P', v.y, v.x)
    if isinstance(v, Area):
        return ('A', tuple(v.ys), tuple(v.xs))
    if isinstance(v, Orientation):
        return ('O', v.name)
    return ('?', repr(v))


class Pose(Transform):
    """a user's subclass of Transform adding nothing but a helper"""

    def describe(self):
        return f'{self.position} {self.orientation.name}'


class Cell(Position):
    pass


class Window(Area):
    pass


def transform_laws(ctx, triples):
    I = Transform(Position(0, 0), Orientation.F)
    for n, (t1, t2, t3, x) in enumerate(triples):
        if n % 5 == 3:
            # instances of user subclasses (a Pose is still a Transform, a Cell still a Position) take part in the algebra with
            # the value they carry: every product with a subclass instance on either side has the value of the plain product
            # (dataclass equality is class-sensitive, so values are compared field by field)
            p2, px = Pose(Cell(t2.position.y, t2.position.x), t2.orientation), Cell(x.y, x.x)
            p1 = Pose(t1.position, t1.orientation)
            ys_, xs_ = sorted([t2.position.y, t3.position.y]), sorted([t2.position.x, t3.position.x])
            W = Window((ys_[0], ys_[1]), (xs_[0], xs_[1]))
            PA = Area((ys_[0], ys_[1]), (xs_[0], xs_[1]))
            law(ctx, 'subclass_instances', lambda: all(val(a) == val(b) for a, b in [
                (t1 * p2, t1 * t2), (p1 * t2, t1 * t2), (p1 * p2, t1 * t2), (t1 * px, t1 * x), (p1 * x, t1 * x), (p1 * px, t1 * x),
                (-p1, -t1), (t1 * W, t1 * PA), (p1 * PA, t1 * PA), (t1.orientation * px, t1.orientation * x),
                (t1.orientation * W, t1.orientation * PA), (px + t2.position, x + t2.position), (t2.position + px, t2.position + x),
                (px - t2.position, x - t2.position), (-px, -x), (p1 * t3.orientation, t1 * t3.orientation)]),
                lambda: f'a product involving a subclass instance differs in value from the plain product: {t1},{t2},{x}', 
                {'t': [[t.position.y, t.position.x, t.orientation.name] for t in (t1, t2, t3)], 'x': [x.y, x.x]})
        pl = {'t': [[t.position.y, t.position.x, t.orientation.name] for t in (t1, t2, t3)], 'x': [x.y, x.x]}
        law(ctx, 'transform_assoc', lambda: (t1 * t2) * t3 == t1 * (t2 * t3) and t1 * I == t1 and I * t1 == t1,
            lambda: f'associativity/identity fails for {t1},{t2},{t3}', pl)
        law(ctx, 'transform_inverse', lambda: t1 * (-t1) == I and (-t1) * t1 == I and -(-t1) == t1,
            lambda: f't*(-t) != id for {t1}: {t1 * (-t1)} / {(-t1) * t1}', pl)
        law(ctx, 'transform_action', lambda: (t1 * t2) * x == t1 * (t2 * x) and I * x == x and (-t1) * (t1 * x) == x,
            lambda: f'(t1*t2)*x != t1*(t2*x) for {t1},{t2},{x}', pl)
        law(ctx, 'transform_action', lambda: all((t1 * t2) * o == t1 * (t2 * o) for o in O),
            lambda: f'composed action on orientations differs for {t1},{t2}', pl)
        ys = sorted([t2.position.y, t3.position.y])
        xs = sorted([t2.position.x, t3.position.x])
        A = Area((ys[0], ys[1]), (xs[0], xs[1]))
        law(ctx, 'transform_action', lambda: (t1 * t2) * A == t1 * (t2 * A),
            lambda: f'(t1*t2)*A != t1*(t2*A) for {t1},{t2},{A}', dict(pl, area=[list(A.ys), list(A.xs)]))
        # the area spanned by scattered positions: spanning commutes with transforming (the image of the bounding area is
        # the bounding area of the images), the spanned area contains its positions and is tight, order is irrelevant
        P = [x, t2.position, t3.position, t2 * x]
        law(ctx, 'area_spanned', lambda: Area.from_positions([t1 * p for p in P]) == t1 * Area.from_positions(P)
            and all(Area.from_positions([o * p for p in P]) == o * Area.from_positions(P) for o in O)
            and Area.from_positions(P) == Area.from_positions(P[::-1]) == Area.from_positions(sorted(P, key=lambda p: (p.x, -p.y)))
            and all(Area.from_positions(P).contains(p) for p in P)
            and (Area.from_positions(P).ymin, Area.from_positions(P).ymax, Area.from_positions(P).xmin, Area.from_positions(P).xmax)
            == (min(p.y for p in P), max(p.y for p in P), min(p.x for p in P), max(p.x for p in P))
            and Area.from_positions([x]) == Area((x.y, x.y), (x.x, x.x)),
            lambda: f'area spanned by {P}: {Area.from_positions(P)}; spanned by the images under {t1}: '
                    f'{Area.from_positions([t1 * p for p in P])}, image of the spanned area: {t1 * Area.from_positions(P)}', pl)
        if A.height * A.width <= 400:
            law(ctx, 'area_image', lambda: set((t1 * A).positions()) == {t1 * p for p in A.positions()}
                and (t1 * A).height * (t1 * A).width == A.height * A.width
                and all(set((o * A).positions()) == {o * p for p in A.positions()} for o in O)
                and set((Position(3, -2) + A).positions()) == {Position(3, -2) + p for p in A.positions()},
                lambda: f'image of area {A} under {t1} is not the set of images of its positions', dict(pl, area=[list(A.ys), list(A.xs)]))


def inplace_operator_laws(ctx, n, rng):
    """the augmented-assignment spellings (t *= s, o *= p, p += q, p -= q, g *= o) mean the same as the binary operators"""
    for k in range(n):
        mag = rng.choice([5, 5, 10**6, 2**70])
        ri = lambda: rng.randint(-mag, mag)  # noqa: E731
        t = Transform(Position(ri(), ri()), rng.choice(O))
        u = Transform(Position(ri(), ri()), rng.choice(O))
        p, q = Position(ri(), ri()), Position(ri(), ri())
        o1, o2 = rng.choice(O), rng.choice(O)
        pl = {'t': [[t.position.y, t.position.x, t.orientation.name], [u.position.y, u.position.x, u.orientation.name], [0, 0, 'FORWARD']],
              'x': [p.y, p.x]}

        def cond():
            want = t * u
            a = Transform(Position(t.position.y, t.position.x), t.orientation)
            a *= u
            b = o1
            b *= o2
            c = Position(p.y, p.x)
            c += q
            d = Position(p.y, p.x)
            d -= q
            e = Transform(Position(t.position.y, t.position.x), t.orientation)
            e *= -e
            f = o1
            f *= p  # orientation acting on a position
            return (a == want and b == o1 * o2 and c == p + q and d == p - q and e == Transform(Position(0, 0), Orientation.F)
                    and f == o1 * p and u == Transform(Position(u.position.y, u.position.x), u.orientation))
        law(ctx, 'inplace_operators', cond, lambda: f'an augmented assignment (*=, +=, -=) on {t}, {u}, {p}, {q}, {o1.name}, {o2.name} '
            f'differs from the binary operator', pl)
        h, w = rng.randint(1, 4), rng.randint(1, 4)
        g = Grid([[Wall() if rng.random() < 0.4 else Floor() for _ in range(w)] for _ in range(h)])
        o = rng.choice(O)

        def cond_g():
            want = [[id(x) for x in r] for r in (g * o).objects]
            g2 = g
            g2 *= o
            return [[id(x) for x in r] for r in g2.objects] == want
        law(ctx, 'inplace_operators', cond_g, lambda: f'g *= {o.name} differs from g * {o.name} on a {h}x{w} grid', {'shape': [h, w], 'o': o.name},
            nontrivial=False)


def mutation_history_laws(ctx, n, rng):
    """the laws must keep holding for the *same* Transform / Grid objects after they are updated in place
    through their public fields (as Agent.position/orientation setters and the transition functions do)"""
    I = Transform(Position(0, 0), Orientation.F)
    for k in range(n):
        t = Transform(Position(rng.randint(-9, 9), rng.randint(-9, 9)), rng.choice(O))
        u = Transform(Position(rng.randint(-9, 9), rng.randint(-9, 9)), rng.choice(O))
        x = Position(rng.randint(-9, 9), rng.randint(-9, 9))
        history = []
        for step in range(6):
            pl = {'t': [[t.position.y, t.position.x, t.orientation.name], [u.position.y, u.position.x, u.orientation.name], [0, 0, 'FORWARD']],
                  'x': [x.y, x.x], 'history': list(history)}
            fresh = Transform(Position(t.position.y, t.position.x), t.orientation)
            law(ctx, 'mutation_history', lambda: t * (-t) == I and (-t) * t == I and (-t) == (-fresh) and (-t) * (t * x) == x
                and (t * u) * x == t * (u * x) and hash(t) == hash(fresh) and t == fresh,
                lambda: f'after in-place updates {history} the transform {t} no longer satisfies inverse/action laws: -t = {-t}, '
                        f'fresh inverse = {-fresh}', pl)
            what = rng.choice(['position', 'orientation', 'both'])
            try:
                if what in ('position', 'both'):
                    t.position = Position(rng.randint(-9, 9), rng.randint(-9, 9))
                if what in ('orientation', 'both'):
                    t.orientation = rng.choice(O)
            except AttributeError:
                # transforms that cannot be updated in place (an immutable value type): continue with a new value - there is
                # then no in-place history to be stale about, the laws are simply checked on more values
                t = Transform(Position(rng.randint(-9, 9), rng.randint(-9, 9)), rng.choice(O))
                what = 'replaced'
            history.append(what)
        # the same through an Agent (setters write into its transform)
        from gym_gridverse.agent import Agent
        a = Agent(Position(1, 2), Orientation.R)
        _ = -a.transform
        a.position = Position(rng.randint(0, 5), rng.randint(0, 5))
        a.orientation = rng.choice(O)
        law(ctx, 'mutation_history', lambda: a.transform * (-a.transform) == I and a.front() == a.transform * Position(-1, 0),
            lambda: f'agent transform {a.transform} after setters: inverse {-a.transform} is stale', {'t': [[a.position.y, a.position.x, a.orientation.name]] * 3, 'x': [0, 0]})
        # grids updated in place keep rotating correctly
        h, w = rng.randint(1, 4), rng.randint(1, 4)
        g = Grid([[Floor() for _ in range(w)] for _ in range(h)])
        o = rng.choice(O)
        _ = g * o
        marked = Wall()
        g[rng.randrange(h), rng.randrange(w)] = marked
        law(ctx, 'mutation_history', lambda: sum(x is marked for row in (g * o).objects for x in row) == 1
            and [[id(x) for x in r] for r in ((g * o) * (-o)).objects] == [[id(x) for x in r] for r in g.objects],
            lambda: f'rotation of a {h}x{w} grid by {o.name} after an in-place cell update lost the update', {'shape': [h, w], 'o': o.name})


def grid_laws(ctx, shapes, rng):
    for (h, w) in shapes:
        grid = Grid([[Wall() if rng.random() < 0.3 else Floor() for _ in range(w)] for _ in range(h)])
        ids = collections.Counter(id(o) for row in grid.objects for o in row)
        for o in O:
            pl = {'shape': [h, w], 'o': o.name}

            def cond():
                layout = [[id(x) for x in row] for row in grid.objects]
                g2 = grid * o
                first = [[id(x) for x in row] for row in g2.objects]
                # rotating leaves its operand alone, and asking again gives the same arrangement without disturbing the first answer
                if [[id(x) for x in row] for row in grid.objects] != layout:
                    return False
                again = grid * o
                if [[id(x) for x in row] for row in again.objects] != first or [[id(x) for x in row] for row in g2.objects] != first \
                        or [[id(x) for x in row] for row in grid.objects] != layout:
                    return False
                same_ids = collections.Counter(id(x) for row in g2.objects for x in row) == ids
                back = (g2 * (-o))
                shape_ok = (g2.shape.height, g2.shape.width) == ((h, w) if o in (Orientation.F, Orientation.B) else (w, h))
                restored = [[id(x) for x in row] for row in back.objects] == [[id(x) for x in row] for row in grid.objects]
                four = grid
                for _ in range(4):
                    four = four * o
                order = [[id(x) for x in row] for row in four.objects] == [[id(x) for x in row] for row in grid.objects] \
                    if o is not Orientation.F else True
                comm = [[id(x) for x in r] for r in (o * grid).objects] == [[id(x) for x in r] for r in g2.objects]
                return same_ids and shape_ok and restored and order and comm
            law(ctx, 'grid_rotation', cond, lambda: f'grid rotation by {o.name} of a {h}x{w} grid loses objects / modifies its operand / is not repeatable / is not undone by the inverse',
                pl)
            # the rotation agrees with the action on positions: object at p ends up where o maps p (up to translation)
            for o2 in O:
                law(ctx, 'grid_rotation', lambda: [[id(x) for x in r] for r in ((grid * o) * o2).objects]
                    == [[id(x) for x in r] for r in (grid * (o * o2)).objects],
                    lambda: f'(g*{o.name})*{o2.name} != g*({o.name}*{o2.name}) on {h}x{w}', dict(pl, o2=o2.name), nontrivial=False)


def next_position_law(ctx, cases):
    from ..refmodel import move_vector
    for (y, x, o, a) in cases:
        pl = {'p': [y, x], 'o': o.name, 'a': a.name}
        p = Position(y, x)

        def cond():
            got = envs_utils.get_next_position(p, o, a)
            if a.is_move():
                dy, dx = move_vector(o, a)
                direction = {Action.MOVE_FORWARD: Orientation.F, Action.MOVE_BACKWARD: Orientation.B,
                             Action.MOVE_LEFT: Orientation.L, Action.MOVE_RIGHT: Orientation.R}[a]
                return got == Position(y + dy, x + dx) and got == Transform(p, o) * Position.from_orientation(direction)
            return got == p
        law(ctx, 'next_position', cond, lambda: f'get_next_position({p},{o.name},{a.name}) = {envs_utils.get_next_position(p, o, a)} '
            f'disagrees with the pose algebra', pl)


def run(ctx):
    with reach(ctx, [G.Orientation.__mul__, G.Orientation.__neg__, G.Position.__add__, G.Transform.__mul__, G.Transform.__neg__,
                     Grid.__mul__, envs_utils.get_next_position]):
        if ctx.shard == 0:
            orientation_laws(ctx)
        rng = ctx.rng
        R = range(-3, 4)
        coords = [c for i, c in enumerate(itertools.product(R, R, R, R)) if ctx.mine(i)]
        if not ctx.thorough:
            coords = coords[::3]
        position_laws(ctx, coords)
        # transforms: exhaustive small, then random
        small = [Transform(Position(y, x), o) for y in (-2, 0, 1) for x in (-1, 0, 2) for o in O]
        triples = []
        for i, (t1, t2, t3) in enumerate(itertools.product(small, repeat=3)):
            if ctx.mine(i) and (ctx.thorough or i % 7 == 0):
                triples.append((t1, t2, t3, Position((i % 5) - 2, (i % 7) - 3)))
        transform_laws(ctx, triples)
        big = []
        for k in range(ctx.pick(2000, 60000)):
            mag = rng.choice([10, 10**6, 10**18, 2**63, 2**64 + 12345, 10**30])
            ri = lambda: rng.randint(-mag, mag)  # noqa: E731
            ts = [Transform(Position(ri(), ri()), rng.choice(O)) for _ in range(3)]
            big.append((ts[0], ts[1], ts[2], Position(ri(), ri())))
            ctx.hit('law.bigint')
        transform_laws(ctx, big)
        position_laws(ctx, [tuple(rng.randint(-10**20, 10**20) for _ in range(4)) for _ in range(ctx.pick(100, 40000))])
        mutation_history_laws(ctx, ctx.pick(600, 5000), rng)
        inplace_operator_laws(ctx, ctx.pick(600, 8000), rng)
        shapes = [(h, w) for h in range(1, 7) for w in range(1, 8)]
        grid_laws(ctx, [s for i, s in enumerate(shapes) if ctx.mine(i)], rng)
        cases = [(y, x, o, a) for y in (-2, 0, 3) for x in (-1, 0, 5) for o in O for a in Action]
        cases += [(rng.randint(-10**18, 10**18), rng.randint(-10**18, 10**18), rng.choice(O), rng.choice(list(Action)))
                  for _ in range(ctx.pick(200, 60000))]
        next_position_law(ctx, [c for i, c in enumerate(cases) if ctx.mine(i)])
        ctx.sample('law', {'law': 'transform_action', 't1': str(big[0][0]), 't2': str(big[0][1]), 'x': str(big[0][3])})
        ctx.sample('law', {'law': 'linear', 'coords': list(coords[len(coords) // 2])})
        ctx.extra['exhaustive'] = True


def replay(ctx, kind, payload):
    lawname = payload['law']
    if lawname == 'orientation_group':
        orientation_laws(ctx)
    elif lawname in ('linear', 'isometry'):
        position_laws(ctx, [tuple(payload['p'] + payload['q'])])
    elif lawname in ('transform_assoc', 'transform_inverse', 'transform_action', 'area_image', 'area_spanned', 'subclass_instances'):
        ts = [Transform(Position(t[0], t[1]), Orientation[t[2]]) for t in payload['t']]
        transform_laws(ctx, [(ts[0], ts[1], ts[2], Position(*payload['x']))])
    elif lawname == 'inplace_operators':
        inplace_operator_laws(ctx, 300, gen.rng_for('replay'))
    elif lawname == 'mutation_history':
        mutation_history_laws(ctx, 200, gen.rng_for('replay'))
    elif lawname == 'grid_rotation':
        grid_laws(ctx, [tuple(payload['shape'])], gen.rng_for('replay'))
    elif lawname == 'next_position':
        next_position_law(ctx, [(payload['p'][0], payload['p'][1], Orientation[payload['o']], Action[payload['a']])])
