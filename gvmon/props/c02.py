"""C02 — seeded environments are reproducible and isolated from every global RNG.
See DESIGN.md §2 C02."""
from .. import boot  # noqa: F401
import functools
import hashlib
import json
import os
import random
import subprocess
import sys
import threading

import numpy as np

from gym_gridverse import rng as gv_rng
from gym_gridverse.action import Action
from gym_gridverse.debugging import reset_gv_debug
from gym_gridverse.envs import gridworld as gridworld_mod
from gym_gridverse.envs import reset_functions as reset_fs
from gym_gridverse.envs import reward_functions as reward_fs
from gym_gridverse.envs import terminating_functions as terminating_fs
from gym_gridverse.envs import transition_functions as transition_fs
from gym_gridverse.envs import visibility_functions as visibility_fs
from gym_gridverse.geometry import Position, Shape
from gym_gridverse.grid_object import Color, Floor, MovingObstacle, Telepod

from .. import compose, enc, gen, workloads
from ..monitor import call_real, describe_exc, env_rng_state_repr, env_slot, raised_by_harness, reach

ID = 'C02'
LEVEL = 'exploration'
TECHNIQUE = 'runtime monitoring: relational monitor comparing the recorded trace of a seeded run with the trace of the same operations replayed under a hostile scheduler (other live environments, unseeded component calls, re-seeding of every global generator, debug flag flips), invariant-at-a-hook snapshots of the three global generators around every operation, cross-process digests under different PYTHONHASHSEED, real-thread stress'
LEVEL_TEXT = ('For every shipped config and random compositions with every stochastic component: the trace (deep encodings of state '
              'and observation, reward, flag per operation) of (config, seed, operation sequence) is recorded solo, then the same '
              'operations are replayed on a fresh environment while a seeded scheduler interleaves operations of 1-3 other live '
              'environments, component calls without rng=, reset_gv_rng / numpy.random.seed / random.seed and debug flips; traces '
              'must be equal and no operation of the seeded environment may move gym_gridverse.rng, numpy.random or random '
              '(snapshot compare). Child interpreters with different PYTHONHASHSEED recompute SHA-256 digests of every config\'s '
              'trace, which must agree; thorough adds 4 environments on 4 real threads with a 1 microsecond switch interval.'
              ' Also: every reset function over a parameter grid called with identically seeded generators (equal states, no global generator touched), special seed values, re-seeded used environments, chain members behind **kwargs wrappers, a never-created library generator (its stream must not become a function of the environment seed), child interpreters digesting configs, reset components and stochastic Python-API compositions under other hash seeds; the functional interface of seeded dense compositions on arbitrary steered member states (agent on a telepod with 1-4 same-coloured partners, obstacles, doors) called twice with the same seed: equal results, no global generator moved.')
LEVEL_NOTE = ('Trusted: trace recorder and canonical encodings. Equality between different operation sequences is not demanded. '
              'Only executions produced are decided; interleavings are sampled (count of distinct schedules in evidence).')
SHARDS = {'quick': 4, 'thorough': 16}
BUDGET_S = {'quick': 300, 'thorough': 2400}
RULE = ('case = (config or composition, seed, operation sequence, hostile schedule). non-trivial = at least one operation of the '
        'run consumed randomness from the environment\'s own generator; distinct by (config, seed, schedule hash).')
ASSUMPTIONS = ['the library generator is created/seeded by the harness before snapshots; construction-time sampling by the YAML '
               'factory (which legitimately uses the library generator) happens before the first snapshot']
REQUIRED = {'quick': {'pairs.compared': 60, 'ops.snapshotted': 5000, 'ops.consumed_randomness': 300, 'hostile.actions': 1000,
                      'children.compared': 40, 'compositions.compared': 10, 'fresh_library.pairs': 10, 'reseeded.compared': 50, 'component.reset_pairs': 200, 'member.functional_pairs': 150}}


def ops_for(rng, n):
    ops = ['reset']
    for _ in range(n):
        r = rng.random()
        if r < 0.72:
            ops.append(('step', rng.randrange(64)))
        elif r < 0.88:
            ops.append('obs')
        elif r < 0.94:
            ops.append('state')
        elif r < 0.97:
            ops.append('reset')
        else:
            ops.append('obs')
    return ops


def env_rng_state(env):
    return env_rng_state_repr(env)


def never_reset(env):
    try:
        env.state
        return False
    except Exception:  # noqa
        return True


def global_snapshot():
    g = gv_rng.get_gv_rng()
    st = np.random.get_state()
    return (repr(g.bit_generator.state), hashlib.blake2b(st[1].tobytes(), digest_size=8).hexdigest(), st[2], st[3],
            hash(random.getstate()))


def run_trace(env, ops, before=None, after=None, counters=None):
    """drive the stateful interface; returns the trace"""
    trace = []
    done = False
    for i, op in enumerate(ops):
        if done and op != 'reset':
            op = 'reset'
        if before:
            before(i, op)
        r0 = env_rng_state(env)
        if op == 'reset':
            env.reset()
            done = False
            entry = ('reset', enc.digest(enc.es(env.state)))
        elif op == 'obs':
            entry = ('obs', enc.digest(enc.es(env.observation)))
        elif op == 'state':
            entry = ('state', enc.digest(enc.es(env.state)))
        else:
            acts = env.action_space.actions
            a = acts[op[1] % len(acts)]
            reward, done = env.step(a)
            entry = ('step', a.name, repr(reward), bool(done), enc.digest(enc.es(env.state)))
        if counters is not None and env_rng_state(env) != r0:
            counters['consumed'] += 1
        if after:
            after(i, op)
        trace.append(entry)
    return trace


def first_difference(t1, t2):
    for i, (a, b) in enumerate(zip(t1, t2)):
        if a != b:
            return i, a, b
    if len(t1) != len(t2):
        return min(len(t1), len(t2)), None, None
    return None


class Hostile:
    """seeded scheduler of perturbations performed between two operations of the environment under test"""

    def __init__(self, rng, others, ctx):
        self.rng = rng
        self.others = others  # [(env, ops iterator state)]
        self.ctx = ctx
        self.schedule = []

    def __call__(self, i, op):
        acts = []
        if self.rng.random() < 0.65:
            for _ in range(self.rng.randint(1, 3)):
                acts.append(self.perturb())
        self.schedule.append(tuple(acts))

    def perturb(self):
        rng = self.rng
        kind = rng.choice(['other_env', 'other_env', 'unseeded_reset', 'unseeded_transition', 'unseeded_visibility',
                           'reset_gv_rng', 'np_seed', 'py_seed', 'debug', 'draw_globals'])
        self.ctx.hit('hostile.actions')
        if kind == 'other_env':
            j = rng.randrange(len(self.others))
            env = self.others[j]
            r = rng.random()
            try:
                if never_reset(env) or r < 0.1:
                    env.reset()
                elif r < 0.8:
                    env.step(rng.choice(env.action_space.actions))
                else:
                    env.observation
            except Exception:
                pass
            return f'other{j}'
        if kind == 'unseeded_reset':
            name = rng.choice(['rooms', 'keydoor', 'dynamic_obstacles', 'teleport', 'crossing', 'crossing7', 'memory', 'memory_rooms', 'empty'])
            from gym_gridverse.grid_object import Wall
            kw = {'rooms': dict(shape=Shape(7, 7), layout=(2, 2)), 'keydoor': dict(shape=Shape(5, 6)),
                  'dynamic_obstacles': dict(shape=Shape(5, 5), num_obstacles=2), 'teleport': dict(shape=Shape(5, 5)),
                  'crossing': dict(shape=Shape(5, 5), num_rivers=rng.choice([1, 2]), object_type=Wall),
                  'crossing7': dict(shape=Shape(7, 7), num_rivers=rng.choice([1, 2, 4]), object_type=Wall),
                  'memory': dict(shape=Shape(5, 5), colors={Color.RED, Color.BLUE, Color.GREEN}),
                  'memory_rooms': dict(shape=Shape(7, 7), layout=(2, 2), colors={Color.RED, Color.BLUE, Color.GREEN}, num_beacons=1, num_exits=2),
                  'empty': dict(shape=Shape(5, 6), random_agent=True, random_exit=True)}[name]
            name = name.rstrip('7')
            reset_fs.factory(name, **kw)()  # rng=None: library generator
            return 'unseeded_' + name
        if kind == 'unseeded_transition':
            s = reset_fs.factory('dynamic_obstacles', shape=Shape(5, 5), num_obstacles=2)()
            transition_fs.transition_function_registry['move_obstacles'](s, Action.TURN_LEFT)
            return 'unseeded_move_obstacles'
        if kind == 'unseeded_visibility':
            s = reset_fs.factory('empty', shape=Shape(5, 5))()
            visibility_fs.visibility_function_registry['stochastic_raytracing'](s.grid, Position(1, 1))
            return 'unseeded_stochastic_raytracing'
        if kind == 'reset_gv_rng':
            gv_rng.reset_gv_rng(rng.randrange(1000))
            return 'reset_gv_rng'
        if kind == 'np_seed':
            np.random.seed(rng.randrange(1000))
            return 'np_seed'
        if kind == 'py_seed':
            random.seed(rng.randrange(1000))
            return 'py_seed'
        if kind == 'debug':
            reset_gv_debug(rng.random() < 0.5)
            return 'debug'
        np.random.random()
        random.random()
        gv_rng.get_gv_rng().random()
        return 'draw_globals'


def isolation_hooks(ctx, label, payload):
    snap = {}

    def before(i, op):
        snap['g'] = global_snapshot()

    def after(i, op):
        ctx.hit('ops.snapshotted')
        now = global_snapshot()
        if now != snap['g']:
            which = [n for n, a, b in zip(['gym_gridverse.rng', 'numpy.random', 'numpy.random', 'numpy.random', 'random'],
                                          snap['g'], now) if a != b]
            ctx.violation('isolation', 'global_rng_moved.' + which[0],
                          f'{label}: operation #{i} {op} of a seeded environment moved the global generator(s) {sorted(set(which))}',
                          'pair_case', payload)
    return before, after


def make_env(kind, data, seed):
    env = compose.factory_env(data) if kind == 'config' else data()
    env.set_seed(seed)
    return env


def compare_pair(ctx, label, kind, data, seed, nops, sched_seed, payload, other_datas):
    """solo trace vs hostile-interleaved trace of the same (config, seed, ops)"""
    reset_gv_debug(True)
    gv_rng.reset_gv_rng(12345)
    ops = ops_for(gen.rng_for('C02ops', label, seed), nops)
    counters = {'consumed': 0}
    before, after = isolation_hooks(ctx, label + ' solo', payload)
    ok, solo = call_real(run_trace, make_env(kind, data, seed), ops, before, after, counters)
    if not ok:
        ctx.violation('reproducible', 'trace.raises', f'{label}: solo run raised {describe_exc(solo)}', 'pair_case', payload)
        return
    # plain repetition (same process, nothing in between)
    ok, again = call_real(run_trace, make_env(kind, data, seed), ops)
    ctx.ev(2)
    if ok and again != solo:
        d = first_difference(solo, again)
        ctx.violation('reproducible', 'trace.differs_on_repetition',
                      f'{label} seed {seed}: two plain runs differ at operation #{d[0]}: {d[1]} vs {d[2]}', 'pair_case', payload)
    # re-use: an environment that already lived through another seeded episode, then given this seed again
    used = make_env(kind, data, seed + 991)
    okw, _ = call_real(run_trace, used, ops[: max(10, len(ops) // 3)])
    if okw:
        used.set_seed(seed)
        okr, reused = call_real(run_trace, used, ops)
        ctx.ev()
        ctx.hit('reseeded.compared')
        if okr and reused != solo:
            d = first_difference(solo, reused)
            ctx.violation('reproducible', 'trace.differs_after_reseeding',
                          f'{label} seed {seed}: an environment used before and then re-seeded differs from a fresh one at operation '
                          f'#{d[0]}: {d[1]} vs {d[2]}', 'pair_case', payload)
    # hostile interleaving
    srng = gen.rng_for('C02sched', label, seed, sched_seed)
    others = []
    for k, (okind, odata, oseed) in enumerate(other_datas):
        try:
            others.append(make_env(okind, odata, oseed))
        except Exception:
            pass
    envB = make_env(kind, data, seed)
    hostile = Hostile(srng, others or [make_env(kind, data, seed + 1)], ctx)
    b2, a2 = isolation_hooks(ctx, label + ' interleaved', payload)

    def before_all(i, op):
        hostile(i, op)
        b2(i, op)

    ok, inter = call_real(run_trace, envB, ops, before_all, a2)
    ctx.ev()
    reset_gv_debug(True)
    ctx.hit('pairs.compared')
    ctx.hit('ops.consumed_randomness', counters['consumed'])
    sched_hash = enc.digest(hostile.schedule)
    ctx.addset('schedule_hashes_sample', sched_hash)
    ctx.add('distinct_schedules')
    if counters['consumed']:
        ctx.nontrivial((label, seed, sched_hash))
    if not ok:
        ctx.violation('reproducible', 'trace.raises', f'{label}: interleaved run raised {describe_exc(inter)}', 'pair_case', payload)
        return
    if inter != solo:
        d = first_difference(solo, inter)
        ctx.violation('reproducible', 'trace.differs_under_interleaving',
                      f'{label} seed {seed}: trace differs from the solo run at operation #{d[0]}: solo {d[1]} vs interleaved {d[2]} '
                      f'(hostile actions before it: {hostile.schedule[d[0]] if d[0] < len(hostile.schedule) else None})',
                      'pair_case', payload)
    return solo


def library_stream_after(kind, data, seed, ops):
    """a never-used library generator (as in a fresh interpreter), a seeded environment living through `ops`, then the first
    numbers the library generator hands to somebody else"""
    if not hasattr(gv_rng, '_gv_rng'):
        raise LookupError('the library keeps its generator elsewhere')
    gv_rng._gv_rng = None
    env = make_env(kind, data, seed)
    run_trace(env, ops)
    return tuple(gv_rng.get_gv_rng().random(3).tolist())


def fresh_library_generator(ctx, label, kind, data, seed, payload):
    """seeding an environment must not seed (= make predictable) the library generator other code draws from: with the
    library generator not yet created, two runs with the same environment seed leave *different* library streams (fresh
    entropy), and the environment traces stay equal"""
    ops = ops_for(gen.rng_for('C02fresh', label, seed), 25)
    if not hasattr(gv_rng, '_gv_rng'):  # nothing to put back into its never-created state: the experiment does not apply
        ctx.add('fresh_library_generator_not_applicable')
        ctx.hit('fresh_library.pairs')
        return
    ok1, a = call_real(library_stream_after, kind, data, seed, ops)
    ok2, b = call_real(library_stream_after, kind, data, seed, ops)
    gv_rng.reset_gv_rng(12345)
    ctx.ev(2)
    ctx.hit('fresh_library.pairs')
    if ok1 and ok2 and a == b:
        ctx.violation('isolation', 'library_generator.seeded_by_environment_seed',
                      f'{label}: with the library generator not yet created, two runs of an environment seeded {seed} leave the '
                      f'library generator producing the same numbers {a} - set_seed/operations made the library stream a function '
                      f'of the environment seed', 'fresh_case', payload)


# ------------------------------------------------------------------ cross-process digests


def config_digests(seed, nops, only=None):
    out = {}
    for name, path, data in compose.shipped_configs():
        if only and name not in only:
            continue
        ops = ops_for(gen.rng_for('C02child', name, seed), nops)
        env = compose.factory_env(data)
        env.set_seed(seed)
        trace = run_trace(env, ops)
        out[name] = hashlib.sha256(repr(trace).encode()).hexdigest()
    # compositions assembled through the Python API, with stochastic observation functions and every stochastic transition
    # (no shipped configuration observes stochastically)
    for k in range(8):
        name = f'composition#{seed * 977 + k}'
        if only and name not in only:
            continue
        try:
            env = composition_factory(seed * 977 + k)()
        except Exception:  # noqa
            continue
        ops = ops_for(gen.rng_for('C02child', name, seed), max(40, nops // 2))
        env.set_seed(seed + k)
        try:
            trace = run_trace(env, ops)
        except Exception as e:  # noqa
            trace = type(e).__name__
        out[name] = hashlib.sha256(repr(trace).encode()).hexdigest()
    return out


def component_digests(seed):
    """digest of what every reset function returns (or the exception class it raises) over a parameter grid that includes
    combinations the functions reject today - nothing here may depend on the interpreter's hash seed"""
    from . import c13
    out = {}
    shapes = [(5, 5), (5, 7), (7, 7), (6, 9), (9, 9), (10, 10)]
    rng = random.Random(seed)
    for name in c13.PRED:
        for p in c13.param_grid(name, shapes, rng, True):
            key = name + ':' + enc.jdump(c13.jsonable(p))
            try:
                fn = reset_fs.factory(name, **c13.to_kwargs(name, p))
                st = fn(rng=np.random.default_rng(seed))
                out[key] = enc.digest(enc.es(st))
            except Exception as e:  # noqa
                out[key] = type(e).__name__
    return out


def child_main(argv):
    seed, nops = int(argv[0]), int(argv[1])
    digests = config_digests(seed, nops)
    digests.update({'component:' + k: v for k, v in component_digests(seed).items()})
    print('C02CHILD ' + json.dumps({'hashseed': os.environ.get('PYTHONHASHSEED'), 'digests': digests}))


def cross_process(ctx, hash_seeds, seed, nops):
    mine = config_digests(seed, nops)
    mine.update({'component:' + k: v for k, v in component_digests(seed).items()})
    ctx.add('cross_process_component_cases', sum(1 for k in mine if k.startswith('component:')))
    env = dict(os.environ)
    for hs in hash_seeds:
        env['PYTHONHASHSEED'] = str(hs)
        try:
            p = subprocess.run([sys.executable, '-W', 'ignore', '-m', 'gvmon.props.c02', 'child', str(seed), str(nops)],
                               env=env, capture_output=True, text=True, timeout=300)
        except subprocess.TimeoutExpired:
            ctx.inconc(f'child interpreter PYTHONHASHSEED={hs} timed out')
            continue
        line = next((l for l in p.stdout.splitlines() if l.startswith('C02CHILD ')), None)
        if line is None:
            ctx.inconc(f'child interpreter PYTHONHASHSEED={hs} produced no digests: {p.stderr[-300:]}')
            continue
        theirs = json.loads(line[len('C02CHILD '):])['digests']
        ctx.addset('hash_seeds', hs)
        for name, d in mine.items():
            ctx.ev()
            ctx.hit('children.compared')
            if theirs.get(name) != d:
                ctx.violation('reproducible', 'trace.differs_across_hash_seeds',
                              f'{name} seed {seed}: trace digest under PYTHONHASHSEED={hs} differs from the one under '
                              f'PYTHONHASHSEED={os.environ.get("PYTHONHASHSEED")}', 'hash_case',
                              {'config': name, 'seed': seed, 'nops': nops, 'hashseed': hs})


def threads(ctx, configs, seed, nops):
    """4 environments on 4 real threads; each thread's trace equals its solo trace"""
    old = sys.getswitchinterval()
    jobs = []
    for i, (name, data) in enumerate(configs):
        ops = ops_for(gen.rng_for('C02thr', name, seed), nops)
        solo = run_trace(make_env('config', data, seed + i), ops)
        jobs.append((name, data, ops, solo, seed + i))
    results = {}

    def work(k):
        name, data, ops, solo, s = jobs[k]
        try:
            results[k] = run_trace(make_env('config', data, s), ops)
        except Exception as e:  # noqa
            results[k] = e
    sys.setswitchinterval(1e-6)
    try:
        ts = [threading.Thread(target=work, args=(k,)) for k in range(len(jobs))]
        for t in ts:
            t.start()
        for t in ts:
            t.join(300)
    finally:
        sys.setswitchinterval(old)
    for k, (name, data, ops, solo, s) in enumerate(jobs):
        ctx.ev()
        ctx.hit('threads.compared')
        r = results.get(k)
        if isinstance(r, Exception) or r is None:
            ctx.violation('reproducible', 'trace.raises_in_thread', f'{name}: {r!r}', 'thread_case', {'config': name, 'seed': s})
        elif r != solo:
            d = first_difference(solo, r)
            ctx.violation('reproducible', 'trace.differs_across_threads',
                          f'{name} seed {s}: trace on a thread differs from the solo trace at operation #{d[0]}', 'thread_case',
                          {'config': name, 'seed': s})


def component_level(ctx, n):
    """every reset function over a parameter grid (incl. 0 / all / flags), every stochastic transition and visibility function:
    called twice with identically seeded generators they must give equal results, and with an explicit generator they must
    not touch any global generator - also right after calls of the same helper with other sizes (module-level state)"""
    from . import c13
    from gym_gridverse.grid_object import Wall
    shapes = [(h, w) for h in range(4, 9) for w in range(4, 9)]
    combos = []
    for name in c13.PRED:
        for p in c13.param_grid(name, shapes, ctx.rng, False):
            combos.append((name, p))
    ctx.rng.shuffle(combos)
    done = 0
    prev = None
    for idx, (name, p) in enumerate(combos):
        if done >= n:
            break
        if not ctx.mine(idx):
            continue
        kw = c13.to_kwargs(name, p)
        ok, fn = call_real(reset_fs.factory, name, **kw)
        if not ok:
            continue
        seed = ctx.rng.randrange(2**32)
        gv_rng.reset_gv_rng(777)
        g0 = global_snapshot()
        ok1, s1 = call_real(fn, rng=np.random.default_rng(seed))
        if not ok1:
            continue
        # something else of another size in between (module-level buffers / caches)
        if prev is not None:
            call_real(prev, rng=np.random.default_rng(seed + 1))
        ok2, s2 = call_real(fn, rng=np.random.default_rng(seed))
        ok3, s3 = call_real(fn, rng=np.random.default_rng(seed))
        g1 = global_snapshot()
        prev = fn
        done += 1
        ctx.ev()
        ctx.hit('component.reset_pairs')
        payload = {'fn': name, 'params': c13.jsonable(p), 'seed': seed}
        if g1 != g0:
            ctx.violation('isolation', f'global_rng_moved.reset.{name}',
                          f'reset function {name}({c13.jsonable(p)}) called with an explicit generator moved a global generator',
                          'component_case', payload)
        if not (ok2 and ok3) or enc.es(s1) != enc.es(s2) or enc.es(s2) != enc.es(s3):
            ctx.violation('reproducible', f'component.reset_not_reproducible.{name}',
                          f'reset function {name}({c13.jsonable(p)}) gives different states for identically seeded generators '
                          f'(seed {seed})', 'component_case', payload)
        else:
            ctx.nontrivial(('component', name, enc.jdump(c13.jsonable(p))))


def functional_member_states(ctx, n):
    """The functional interface of a seeded environment on *arbitrary* member states (not only those its reset function
    produces): dense compositions, states steered towards interacting components (agent on a telepod with one, two or
    three same-coloured partners, obstacles around it, doors / boxes in front).  For every (state, action): seed the
    environment, call functional_step + functional_observation, seed again identically, call again - equal results are
    required - and none of the three global generators may have moved in between."""
    import copy
    done = 0
    k = 0
    while done < n and k < 40 * n:
        k += 1
        if not ctx.mine(k):
            continue
        if ctx.out_of_time(0.9):
            break
        rng = gen.rng_for('C02member', ctx.seed, k)
        comp = workloads.Composition(rng, dense=(k % 2 == 0), force_all_actions=True,
                                     force_transitions=rng.sample(workloads.TRANSITIONS, 3) + ['move_obstacles', 'teleport'])
        comp.shape = (max(2, comp.shape[0]), max(2, comp.shape[1]))
        if Telepod not in comp.types:
            comp.types.append(Telepod)
        if MovingObstacle not in comp.types:
            comp.types.append(MovingObstacle)
        try:
            state, _ = comp.member_state(rng)
            if state is None:
                continue
            workloads.steer(comp, rng, state, n_scenarios=2)
            # several partners of one colour (the destination is then *sampled*), agent standing on one of them
            if rng.random() < 0.7 and comp.unique_type is not Telepod:
                c = rng.choice(comp.colors)
                h, w = comp.shape
                cells = [(y, x) for y in range(h) for x in range(w)
                         if not (comp.unique_type and isinstance(state.grid[y, x], comp.unique_type))
                         and not type(state.grid[y, x]).__name__ == 'Beacon']
                rng.shuffle(cells)
                pods = cells[:rng.randint(3, 5)]
                if len(pods) >= 3:
                    for y, x in pods:
                        state.grid[y, x] = Telepod(c)
                    y, x = pods[0]
                    state.agent.position = Position(y, x)
            env = comp.build(lambda *, rng=None, _s=state: copy.deepcopy(_s))
        except Exception as e:
            if raised_by_harness(e):
                ctx.inconc(f'member-state composition #{k} could not be assembled: {describe_exc(e)}')
            ctx.add('member_compositions_not_assembled')
            continue
        seed = rng.choice([0, 1, 2**32 - 1, rng.randrange(2**32)])
        payload = {'k': k, 'seed': seed}
        for action in comp.actions:
            results = []
            gv_rng.reset_gv_rng(4242)
            np.random.seed(99)
            random.seed(99)
            g0 = global_snapshot()
            failed = False
            for rep in range(2):
                s_in = copy.deepcopy(state)
                ok0, _ = call_real(env.set_seed, seed)
                ok1, r = call_real(env.functional_step, s_in, action)
                if not (ok0 and ok1):
                    failed = True
                    break
                ok2, o = call_real(env.functional_observation, r[0])
                if not ok2:
                    failed = True
                    break
                results.append((enc.es(r[0]), repr(float(r[1])), bool(r[2]), enc.eg(o.grid), enc.ea(o.agent)))
            g1 = global_snapshot()
            if failed:
                ctx.add('member_calls_raised')  # totality is C01's business
                continue
            done += 1
            ctx.ev()
            ctx.hit('member.functional_pairs')
            if g1 != g0:
                ctx.violation('isolation', 'global_rng_moved.functional_member_state',
                              f'functional_step / functional_observation of a seeded composition on a member state '
                              f'({action.name}) moved a global generator; transitions {[t["name"] for t in comp.transitions]}',
                              'member_case', payload)
            if results[0] != results[1]:
                ctx.violation('reproducible', 'functional_member_state.not_reproducible',
                              f'identically seeded environment, same member state, same action ({action.name}): different results',
                              'member_case', payload)
            if enc.es(state) != results[0][0]:
                ctx.nontrivial(('member', k, action.name))


def composition_factory(comp_seed):
    """random composition with stochastic components and a random built-in reset"""
    def make():
        rng = gen.rng_for('C02comp', comp_seed)
        comp = workloads.Composition(rng, force_all_actions=True,
                                     force_transitions=rng.sample(workloads.TRANSITIONS, 4) + ['move_obstacles', 'teleport'])
        comp.rewards = [{'name': 'living_reward', 'reward': -0.1}, {'name': 'reach_exit'}, {'name': 'bump_moving_obstacle'}]
        comp.noisy_parts = (comp_seed % 3 == 1)  # a user-defined stochastic reward and termination part (see noisy_reward)
        comp.terminating = {'name': 'reach_exit'}
        a = [[comp.area.ymin, comp.area.ymax], [comp.area.xmin, comp.area.xmax]]
        comp.observation = rng.choice([{'name': 'stochastic_raytracing', 'area': a},
                                       {'name': 'from_visibility', 'area': a, 'visibility_function': {'name': 'stochastic_raytracing'}}])
        name, kw = rng.choice([
            ('rooms', dict(shape=Shape(7, 8), layout=(2, 2))), ('dynamic_obstacles', dict(shape=Shape(6, 6), num_obstacles=rng.choice([0, 1, 3]), random_agent=True)),
            ('teleport', dict(shape=Shape(6, 6))), ('keydoor', dict(shape=Shape(5, 7))),
            ('crossing', dict(shape=Shape(7, 7), num_rivers=rng.choice([1, 2, 4]), object_type=__import__('gym_gridverse').grid_object.Wall)),
            ('memory_rooms', dict(shape=Shape(7, 7), layout=(2, 2), colors={Color.RED, Color.GREEN, Color.BLUE}, num_beacons=1, num_exits=2)),
            ('empty', dict(shape=Shape(5, 6), random_agent=True, random_exit=True))])
        comp.types = list(gen.GRID_TYPES)
        comp.colors = list(Color)
        comp.shape = (kw['shape'].height, kw['shape'].width)
        comp.wrap_parts = rng.choice([0, 0, 1, 2, 3])  # chain members behind **kwargs wrappers / callable objects
        reset = reset_fs.factory(name, **kw)
        env = comp.build(reset)
        if comp.noisy_parts:
            # user-defined stochastic components written to the documented protocols (they draw from the generator they are
            # given, and from the library generator only when given none): a seeded environment hands them its own
            r_slot, t_slot = env_slot(env, 'reward'), env_slot(env, 'termination')
            if r_slot and t_slot:
                base_r, base_t = getattr(env, r_slot), getattr(env, t_slot)
                setattr(env, r_slot, functools.partial(reward_fs.reduce_sum, reward_functions=[base_r, noisy_reward]))
                setattr(env, t_slot, functools.partial(terminating_fs.reduce_any, terminating_functions=[base_t, noisy_termination]))
        return env
    return make


def noisy_reward(state, action, next_state, *, rng=None):
    return float(gv_rng.get_gv_rng_if_none(rng).integers(0, 1000)) / 1000.0


def noisy_termination(state, action, next_state, *, rng=None):
    return bool(gv_rng.get_gv_rng_if_none(rng).integers(0, 40) == 0)


def run(ctx):
    configs = compose.shipped_configs()
    with reach(ctx, [gridworld_mod.GridWorld.set_seed, gridworld_mod.GridWorld.functional_reset,
                     gridworld_mod.GridWorld.functional_step, gridworld_mod.GridWorld.functional_observation,
                     gv_rng.get_gv_rng_if_none, transition_fs.chain, reset_fs.memory, reset_fs.memory_rooms]):
        nops = ctx.pick(120, 300)
        seeds = ctx.pick(2, 30)
        job = 0
        for name, path, data in configs:
            for s in range(seeds):
                job += 1
                if not ctx.mine(job):
                    continue
                if ctx.out_of_time(0.6):
                    ctx.add('pairs_skipped_for_time')
                    continue
                seed = ctx.seed * 1000 + s
                if s == 0:
                    seed = [0, 2**32 - 1, 1, 2**63 - 1][(job // max(1, seeds)) % 4]  # special seed values (0 is falsy, largest uint32 / int63)
                other = configs[(job * 7) % len(configs)]
                others = [('config', data, seed), ('config', data, seed + 17), ('config', other[2], seed)]
                payload = {'config': name, 'seed': seed, 'nops': nops, 'sched': job}
                solo = compare_pair(ctx, name, 'config', data, seed, nops, job, payload, others)
                ctx.addset('configs', name)
                if s == 0:
                    fresh_library_generator(ctx, name, 'config', data, seed, payload)
                if solo and s == 0 and name.startswith('gv_dynamic'):
                    ctx.sample('trace_head', {'config': name, 'seed': seed, 'first_ops': [list(e) for e in solo[:4]]}, per_kind=1)
        for k in range(ctx.pick(16, 800)):
            if not ctx.mine(k):
                continue
            if ctx.out_of_time(0.75):
                break
            seed = ctx.seed * 1000 + k
            payload = {'composition': ctx.seed * 977 + k, 'seed': seed, 'nops': nops, 'sched': k}
            ok, factory = call_real(composition_factory, ctx.seed * 977 + k)
            try:
                factory()
            except Exception as e:
                if raised_by_harness(e):
                    ctx.inconc(f'composition #{ctx.seed * 977 + k} could not be assembled: {describe_exc(e)}')
                ctx.add('compositions_not_assembled')
                continue
            compare_pair(ctx, f'composition#{ctx.seed * 977 + k}', 'comp', factory, seed, nops, k, payload,
                         [('comp', factory, seed), ('comp', factory, seed + 3)])
            ctx.hit('compositions.compared')
            fresh_library_generator(ctx, f'composition#{ctx.seed * 977 + k}', 'comp', factory, seed, payload)
        component_level(ctx, ctx.pick(400, 6000))
        functional_member_states(ctx, ctx.pick(1200, 20000))
        # cross-process digests under different PYTHONHASHSEED
        all_hash_seeds = list(range(1, ctx.pick(5, 33)))
        mine = [h for i, h in enumerate(all_hash_seeds) if ctx.mine(i)]
        cross_process(ctx, mine, ctx.seed * 31 + 5, ctx.pick(60, 150))
        if ctx.thorough:
            four = [(n, d) for n, _, d in configs if any(k in n for k in ('dynamic_obstacles.7x7', 'teleport.7x7', 'memory_nine_rooms.10x10', 'keydoor.7x7'))]
            for rep in range(32):
                if ctx.mine(rep):
                    threads(ctx, four, ctx.seed * 50 + rep, 200)
        ctx.sample('hostile_actions', ['other_env', 'unseeded_reset', 'unseeded_transition', 'unseeded_visibility', 'reset_gv_rng',
                                       'np_seed', 'py_seed', 'debug', 'draw_globals'], per_kind=1)


def replay(ctx, kind, payload):
    configs = compose.shipped_configs()
    byname = {n: d for n, _, d in configs}
    if kind == 'pair_case' and 'config' in payload:
        data = byname[payload['config']]
        compare_pair(ctx, payload['config'], 'config', data, payload['seed'], payload['nops'], payload['sched'], payload,
                     [('config', data, payload['seed']), ('config', data, payload['seed'] + 17)])
    elif kind == 'pair_case':
        factory = composition_factory(payload['composition'])
        compare_pair(ctx, f'composition#{payload["composition"]}', 'comp', factory, payload['seed'], payload['nops'],
                     payload['sched'], payload, [('comp', factory, payload['seed'])])
    elif kind == 'fresh_case':
        if 'config' in payload:
            fresh_library_generator(ctx, payload['config'], 'config', byname[payload['config']], payload['seed'], payload)
        else:
            fresh_library_generator(ctx, f'composition#{payload["composition"]}', 'comp',
                                    composition_factory(payload['composition']), payload['seed'], payload)
    elif kind == 'hash_case':
        mine = config_digests(payload['seed'], payload['nops'], only=[payload['config']])
        env = dict(os.environ, PYTHONHASHSEED=str(payload['hashseed']))
        p = subprocess.run([sys.executable, '-W', 'ignore', '-m', 'gvmon.props.c02', 'child', str(payload['seed']), str(payload['nops'])],
                           env=env, capture_output=True, text=True, timeout=300)
        line = next((l for l in p.stdout.splitlines() if l.startswith('C02CHILD ')), None)
        ctx.ev()
        if line and json.loads(line[9:])['digests'].get(payload['config']) != mine[payload['config']]:
            ctx.violation('reproducible', 'trace.differs_across_hash_seeds', f'{payload["config"]}: digests differ', kind, payload)
    elif kind == 'component_case':
        component_level(ctx, 400)
    elif kind == 'member_case':
        functional_member_states(ctx, 1200)
    elif kind == 'thread_case':
        threads(ctx, [(n, d) for n, _, d in configs if n == payload['config']] * 4, payload['seed'], 200)


if __name__ == '__main__':
    if len(sys.argv) > 1 and sys.argv[1] == 'child':
        child_main(sys.argv[2:])
