#!/bin/bash
# Runs the repository's own test-suite with the verification guard OFF and
# compares the outcome with /root/.vp/BASELINE.json (when present).
unset GYM_GRIDVERSE_VERIF
REPO="${GV_REPO:-/repo}"
OUT="$(mktemp -d)"
trap 'rm -rf "$OUT"' EXIT
cd "$REPO" || exit 2
/venv/bin/python -m pytest -ra -q -p no:cacheprovider --timeout=900 --continue-on-collection-errors --junitxml="$OUT/junit.xml" >"$OUT/log" 2>&1
tail -n 1 "$OUT/log"
python3 - "$OUT/junit.xml" <<'PY'
import json, os, sys
import xml.etree.ElementTree as ET
root = ET.parse(sys.argv[1]).getroot()
passed, failed = set(), set()
for tc in root.iter('testcase'):
    name = f"{tc.get('classname')}::{tc.get('name')}"
    if any(ch.tag in ('failure', 'error') for ch in tc):
        failed.add(name)
    elif any(ch.tag == 'skipped' for ch in tc):
        pass
    else:
        passed.add(name)
print(f'passed={len(passed)} failed={len(failed)}')
b = '/root/.vp/BASELINE.json'
if os.path.exists(b):
    base = set(json.load(open(b))['stable_pass'])
    missing = sorted(base - passed)
    print(f'baseline stable_pass={len(base)} missing={len(missing)}')
    for m in missing[:20]:
        print('  MISSING', m)
    sys.exit(1 if missing else 0)
sys.exit(0 if len(passed) >= 1017 else 1)
PY
