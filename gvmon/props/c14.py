"""C14 — every initial state is winnable.  See DESIGN.md §2 C14."""
from .. import boot  # noqa: F401
import copy

import numpy as np

from gym_gridverse.action import Action
from gym_gridverse.debugging import reset_gv_debug
from gym_gridverse.envs import reset_functions as reset_fs
from gym_gridverse.grid import Grid
from gym_gridverse.grid_object import Beacon, Color, Exit, Floor, MovingObstacle, NoneGridObject, Wall
from gym_gridverse.state import State

from .. import compose, enc, gen, search
from ..monitor import call_real, describe_exc, raised_by_harness, reach
from ..scripted_rng import ScriptedRng, enumerate_outcomes

ID = 'C14'
LEVEL = 'exploration'
TECHNIQUE = 'runtime monitoring by search over the real step function: BFS keyed by deep state encoding over GridWorld.functional_step (possibilistic successor sets from the scripted generator for stochastic dynamics), expanding only non-terminal states; unwinnable witnesses classified by mechanism against the known-findings list'
LEVEL_TEXT = ('For every initial state produced by the real reset functions (shipped parameters x seeds, a parameter grid of '
              'accepted combinations, and all random outcomes of the smallest shapes) a search over the real functional_step of '
              'an environment assembled like the shipped config of that family looks for a history reaching the rewarded goal '
              'without passing through a terminating state. Found = a genuine (possible) history; exhausted = proof of '
              'unwinnability for that layout, reported unless its mechanism is a listed known finding; budget hit = '
              'inconclusive instance (counted).'
              ' Also: uneven room splits (40 seeds each), long layouts, rivers of non-blocking terminating objects.')
LEVEL_NOTE = ('Trusted: search.py; goal = agent on the exit (memory tasks: the exit whose colour is the beacons\'). Key-door search '
              'never drops a held key (sound for existence). Known findings F1/F2 are matched by mechanism (goal reachable once '
              'wrong-coloured exits are passable / once obstacles are removed), never by seed.')
SHARDS = {'quick': 4, 'thorough': 16}
BUDGET_S = {'quick': 300, 'thorough': 2400}
RULE = ('case = (reset function, parameters, seed or script) -> initial state -> search. non-trivial = the shortest history '
        'found has at least 3 actions; distinct by deep encoding of the initial state.')
ASSUMPTIONS = ['environment per family assembled from the shipped config of that family (same dynamics and termination)',
               'searches hitting the node budget are inconclusive instances, not failures']
REQUIRED = {'quick': {f'solved.{n}': 6 for n in ['empty', 'rooms', 'dynamic_obstacles', 'keydoor', 'crossing', 'teleport',
                                                  'memory', 'memory_rooms']}}
REQUIRED['quick']['instances'] = 150
REQUIRED['quick']['solved.crossing_obstacle_rivers'] = 6

# crossing whose rivers are moving obstacles (non-blocking, but stepping on one terminates): the openings matter
OBSTACLE_RIVERS = {
    'state_space': {'objects': ['Wall', 'Floor', 'Exit', 'MovingObstacle'], 'colors': ['NONE']},
    'observation_space': {'objects': ['Wall', 'Floor', 'Exit', 'MovingObstacle'], 'colors': ['NONE']},
    'reset_function': {'name': 'crossing', 'shape': [5, 5], 'num_rivers': 1, 'object_type': 'MovingObstacle'},
    'transition_functions': [{'name': 'move_agent'}, {'name': 'turn_agent'}],
    'reward_functions': [{'name': 'living_reward', 'reward': 0.0}],
    'observation_function': {'name': 'partially_occluded', 'area': [[-6, 0], [-3, 3]]},
    'terminating_function': {'name': 'reduce_any', 'terminating_functions': [{'name': 'reach_exit'}, {'name': 'bump_moving_obstacle'}]},
}
FAMILY_CONFIG = {
    'empty': 'gv_empty.4x4', 'rooms': 'gv_four_rooms.7x7', 'dynamic_obstacles': 'gv_dynamic_obstacles.5x5',
    'keydoor': 'gv_keydoor.5x5', 'crossing': 'gv_crossing.5x5', 'teleport': 'gv_teleport.5x5', 'memory': 'gv_memory.5x5',
    'memory_rooms': 'gv_memory_four_rooms.7x7',
}
PLAN_ACTIONS = (Action.MOVE_FORWARD, Action.TURN_LEFT, Action.TURN_RIGHT, Action.ACTUATE, Action.PICK_N_DROP)
_ENVS = {}


def family_env(family, configs):
    """GridWorld with the dynamics and termination of the family's shipped config"""
    if family not in _ENVS:
        data = copy.deepcopy(OBSTACLE_RIVERS if family == 'crossing_obstacle_rivers' else configs[FAMILY_CONFIG[family]])
        data['reward_functions'] = [{'name': 'living_reward', 'reward': 0.0}]  # rewards do not affect reachability
        _ENVS[family] = (compose.build_env(data), data)
    return _ENVS[family]


def goal_for(family):
    if family in ('memory', 'memory_rooms'):
        def goal(s, a, ns, r, d):
            p = ns.agent.position
            cell = ns.grid.objects[p.y][p.x]
            if not isinstance(cell, Exit):
                return False
            beacons = [o for row in ns.grid.objects for o in row if isinstance(o, Beacon)]
            return bool(beacons) and cell.color is beacons[0].color
        return goal

    def goal(s, a, ns, r, d):
        p = ns.agent.position
        return isinstance(ns.grid.objects[p.y][p.x], Exit)
    return goal


def exit_distance(family):
    def prio(s):
        p = s.agent.position
        best = 99
        for y, row in enumerate(s.grid.objects):
            for x, o in enumerate(row):
                if isinstance(o, Exit):
                    best = min(best, abs(p.y - y) + abs(p.x - x))
        return best
    return prio


def solve(env, family, state, max_nodes):
    stochastic = family in ('dynamic_obstacles', 'teleport')
    acts = [a for a in PLAN_ACTIONS if a in env.action_space.actions]
    prune = None
    if family == 'keydoor':
        def prune(s, a, ns):
            return a is Action.PICK_N_DROP and type(s.agent.grid_object) is not NoneGridObject
    prio = exit_distance(family) if family == 'dynamic_obstacles' else None
    errors = []

    def on_error(s, a, e):  # the real step raised: totality is C01's subject; here the transition is simply unexplored
        errors.append(describe_exc(e))

    status, path, stats = search.bfs(env, state, goal_for(family), max_nodes, stochastic=stochastic, actions=acts,
                                     prune=prune, priority=prio, outcome_limit=256, on_error=on_error)
    if status == 'exhausted' and (len(acts) < len(env.action_space.actions) or prune is not None):
        # confirm with the environment's full action set and no pruning before calling it unwinnable
        status, path, stats = search.bfs(env, state, goal_for(family), max_nodes, stochastic=stochastic, priority=prio,
                                         outcome_limit=256, on_error=on_error)
    stats['raised'] = errors[:3]
    return status, path, stats


def classify(env, family, state, max_nodes):
    """mechanism key of an unwinnable instance (matched against KNOWN_FINDINGS.txt)"""
    if family == 'memory_rooms':
        beacons = [o for row in state.grid.objects for o in row if isinstance(o, Beacon)]
        if beacons:
            rows = [[Floor() if isinstance(o, Exit) and o.color is not beacons[0].color else o for o in row]
                    for row in state.grid.objects]
            s2 = State(Grid(rows), state.agent)
            if solve(env, family, s2, max_nodes)[0] == 'found':
                return 'memory_rooms.wrong_exit_on_only_route'
    if family == 'dynamic_obstacles':
        rows = [[Floor() if isinstance(o, MovingObstacle) else o for o in row] for row in state.grid.objects]
        s2 = State(Grid(rows), state.agent)
        if solve(env, family, s2, max_nodes)[0] == 'found':
            return 'dynamic_obstacles.saturated'
    return f'{family}.unwinnable'


def tag_of(how):
    return how.get('tag') if isinstance(how, dict) else None


def instance(ctx, configs, family, params, state, how, max_nodes):
    env, data = family_env(family, configs)
    # the family env was sized from a sample reset; resize its spaces to this instance
    from gym_gridverse.spaces import StateSpace
    env.state_space = StateSpace(state.grid.shape, env.state_space.object_types, env.state_space.colors)
    ctx.ev()
    ctx.hit('instances')
    payload = {'family': family, 'params': params, 'state': enc.state_to_json(state), **how}
    try:
        status, path, stats = solve(env, family, state, max_nodes)
    except Exception as e:
        if raised_by_harness(e):
            raise
        ctx.violation('winnable', f'{family}.step_raises', f'{family} {params}: step raised during search: {describe_exc(e)}',
                      'win_case', payload)
        return
    ctx.add('search_nodes', stats.get('nodes', 0))
    ctx.add('search_transitions', stats.get('transitions', 0))
    if status == 'found':
        ctx.hit('solved.' + family)
        ctx.cat(f'path_len.{family}.{min(len(path) // 5 * 5, 40)}+')
        if len(path) >= 3:
            ctx.nontrivial((family, enc.es(state)))
        if tag_of(how) == 'long_layout':
            ctx.hit('solved.long_layouts')
        if ctx.hits['solved.' + family] <= 1:
            ctx.sample('solved', {'family': family, 'params': params, 'state': enc.render(state),
                                  'history': [a.name for a in path]}, per_kind=8)
    elif status == 'exhausted':
        key = classify(env, family, state, max_nodes)
        ctx.hit('unwinnable.' + key)
        ctx.violation('winnable', key,
                      f'{family} {params} {how}: no history reaches the goal (search exhausted {stats.get("states")} states): '
                      f'{enc.render(state)["rows"]} agent {enc.render(state)["agent"]}', 'win_case', payload)
    else:
        ctx.hit('budget.' + family)
        ctx.add('inconclusive_instances')
        if stats.get('raised'):
            ctx.inconc(f'{family} {params}: the real step raised during the search ({stats["raised"][0]}); winnability undecided')


def seeded_instances(ctx, configs, family, params, seeds, max_nodes, tag):
    fn = compose.build('reset', {'name': 'crossing' if family == 'crossing_obstacle_rivers' else family, **params})
    for s in seeds:
        ok, state = call_real(fn, rng=np.random.default_rng(s))
        if not ok:
            if not isinstance(state, ValueError):
                ctx.cat('reset_raised_other')
            return  # parameters not accepted: nothing to win
        if ctx.out_of_time(0.92):
            ctx.add('instances_skipped_for_time')
            return
        instance(ctx, configs, family, params, state, {'seed': s, 'tag': tag}, max_nodes)


def all_outcome_instances(ctx, configs, family, params, limit, max_nodes):
    fn = compose.build('reset', {'name': family, **params})
    seen = set()
    it = enumerate_outcomes(lambda rng: fn(rng=rng), limit)
    n = 0
    while True:
        try:
            rng, res = next(it)
        except StopIteration as stop:
            complete = bool(stop.value)
            break
        if isinstance(res, Exception):
            if raised_by_harness(res):
                raise res
            continue
        k = enc.es(res)
        if k in seen:
            continue
        seen.add(k)
        n += 1
        if ctx.out_of_time(0.97):
            complete = False
            break
        instance(ctx, configs, family, params, res, {'script': [int(v) for v in rng.values], 'tag': 'all_outcomes'}, max_nodes)
    ctx.addset('all_outcome_cases', {'family': family, 'params': params, 'distinct_initial_states': n, 'complete': complete})


GRID = [
    ('empty', {'shape': [4, 4], 'random_agent': True, 'random_exit': True}),
    ('empty', {'shape': [6, 9], 'random_agent': True, 'random_exit': True}),
    ('rooms', {'shape': [5, 5], 'layout': [2, 2]}),
    ('rooms', {'shape': [7, 10], 'layout': [2, 3]}),
    ('rooms', {'shape': [11, 11], 'layout': [3, 3]}),
    ('rooms', {'shape': [4, 9], 'layout': [1, 4]}),
    ('dynamic_obstacles', {'shape': [5, 5], 'num_obstacles': 2, 'random_agent': True}),
    ('dynamic_obstacles', {'shape': [6, 6], 'num_obstacles': 3}),
    ('dynamic_obstacles', {'shape': [4, 4], 'num_obstacles': 1}),
    ('dynamic_obstacles', {'shape': [4, 4], 'num_obstacles': 2}),
    ('keydoor', {'shape': [3, 6]}),
    ('keydoor', {'shape': [4, 5]}),
    ('keydoor', {'shape': [6, 8]}),
    ('crossing', {'shape': [5, 5], 'num_rivers': 1, 'object_type': 'Wall'}),
    ('crossing', {'shape': [7, 9], 'num_rivers': 3, 'object_type': 'Wall'}),
    ('crossing', {'shape': [9, 9], 'num_rivers': 6, 'object_type': 'Wall'}),
    ('crossing', {'shape': [11, 7], 'num_rivers': 50, 'object_type': 'Wall'}),
    ('crossing_obstacle_rivers', {'shape': [5, 5], 'num_rivers': 1, 'object_type': 'MovingObstacle'}),
    ('crossing_obstacle_rivers', {'shape': [7, 9], 'num_rivers': 3, 'object_type': 'MovingObstacle'}),
    ('teleport', {'shape': [4, 4]}),
    ('teleport', {'shape': [6, 7]}),
    ('memory', {'shape': [5, 5], 'colors': ['RED', 'BLUE']}),
    ('memory', {'shape': [7, 9], 'colors': ['RED', 'GREEN', 'BLUE', 'YELLOW']}),
    ('memory_rooms', {'shape': [7, 7], 'layout': [2, 2], 'colors': ['RED', 'GREEN', 'BLUE'], 'num_beacons': 1, 'num_exits': 2}),
    ('memory_rooms', {'shape': [5, 9], 'layout': [1, 2], 'colors': ['RED', 'GREEN', 'BLUE'], 'num_beacons': 2, 'num_exits': 3}),
    ('memory_rooms', {'shape': [10, 10], 'layout': [3, 3], 'colors': ['RED', 'GREEN', 'BLUE', 'YELLOW'], 'num_beacons': 1, 'num_exits': 2}),
]
ALL_OUTCOMES = [
    ('keydoor', {'shape': [4, 5]}),
    ('keydoor', {'shape': [3, 6]}),
    ('crossing', {'shape': [5, 5], 'num_rivers': 1, 'object_type': 'Wall'}),
    ('crossing', {'shape': [5, 7], 'num_rivers': 2, 'object_type': 'Wall'}),
    ('rooms', {'shape': [3, 5], 'layout': [1, 2]}),
    ('teleport', {'shape': [4, 4]}),
    ('memory', {'shape': [5, 5], 'colors': ['RED', 'BLUE']}),
    ('dynamic_obstacles', {'shape': [4, 5], 'num_obstacles': 1}),
]


def run(ctx):
    reset_gv_debug(False)
    configs = dict((n, d) for n, _, d in compose.shipped_configs(include_examples=False))
    max_nodes = ctx.pick(6000, 40000)
    jobs = []
    # shipped parameters
    for name, data in configs.items():
        spec = dict(data['reset_function'])
        family = spec.pop('name')
        jobs.append(('shipped:' + name, family, spec, ctx.pick(40, 2000)))
    for family, params in GRID:
        jobs.append(('grid', family, params, ctx.pick(16, 600)))
    # many rooms along one dimension (sizes up to 64, 5..14 rooms)
    lrng = gen.rng_for('C14long', ctx.seed)
    pairs = [(size, n) for size in (16, 24, 31, 32, 48, 50, 62, 64) for n in (5, 7, 9, 11, 13, 14)]
    if not ctx.thorough:
        pairs = lrng.sample(pairs, 24) + [(lrng.randint(10, 70), lrng.randint(2, 15)) for _ in range(8)]
    else:
        pairs += [(size, n) for size in range(8, 72, 3) for n in range(2, 16, 2)]
    for (size, n) in pairs:
        for orient in (0, 1):
            shape = [size, 5] if orient == 0 else [5, size]
            layout = [n, 1] if orient == 0 else [1, n]
            jobs.append(('long_layout', 'rooms', {'shape': shape, 'layout': layout}, ctx.pick(2, 8)))
    # rooms of unequal sizes (the grid does not divide evenly into the layout): passages are placed per actual room
    for size in ((6, 8, 9, 10, 12, 13, 14) if not ctx.thorough else range(5, 20)):
        for n in (2, 3, 4):
            if (size - 1) % n != 0 and size >= 3 * n:
                jobs.append(('uneven_rooms', 'rooms', {'shape': [size, size], 'layout': [n, n]}, ctx.pick(40, 400)))
                jobs.append(('uneven_rooms', 'rooms', {'shape': [size, size + 3], 'layout': [n, 2]}, ctx.pick(10, 100)))
    with reach(ctx, [getattr(reset_fs, n) for n in FAMILY_CONFIG]):
        if ctx.shard == 0:
            # the witness input of the listed known finding F1 is replayed on every run, so that the finding is always
            # reported (as KNOWN-FINDING) while it exists, and stops being reported once it is repaired
            seeded_instances(ctx, configs, 'memory_rooms',
                             {'shape': [5, 9], 'layout': [1, 2], 'colors': ['RED', 'GREEN', 'BLUE'], 'num_beacons': 2, 'num_exits': 3},
                             [43011], max_nodes, 'known_finding_witness')
        for j, (tag, family, params, nseeds) in enumerate(jobs):
            seeds = [ctx.seed * 100000 + j * 1000 + s for s in range(nseeds)]
            mine = [s for i, s in enumerate(seeds) if ctx.mine(j + i)]
            seeded_instances(ctx, configs, family, params, mine, max_nodes, tag)
        for j, (family, params) in enumerate(ALL_OUTCOMES):
            if ctx.mine(j):
                all_outcome_instances(ctx, configs, family, params, ctx.pick(400, 20000), max_nodes)
    reset_gv_debug(True)


def replay(ctx, kind, payload):
    reset_gv_debug(False)
    configs = dict((n, d) for n, _, d in compose.shipped_configs(include_examples=False))
    family, params = payload['family'], payload['params']
    fn = compose.build('reset', {'name': 'crossing' if family == 'crossing_obstacle_rivers' else family, **params})
    if 'seed' in payload:
        ok, state = call_real(fn, rng=np.random.default_rng(payload['seed']))
    else:
        ok, state = call_real(fn, rng=ScriptedRng(payload.get('script', [])))
    if ok:
        instance(ctx, configs, family, params, state, {'replay': True}, 40000)
    reset_gv_debug(True)
