"""User-defined grid objects (the documented extension point, cf. docs/tutorial and examples/) used by some workloads:
the built-in components must treat them by their *flags*, not by their type.  Importing this module registers the
two types in this process (only the property modules that call `enable` import it).

Cleats  - a second holdable type besides Key (the library's own tutorial defines such an object); falsy (len 0)
Curtain - like Box, carries data outside state_index (its opacity): equal by ==, different in behaviour
"""
from . import boot  # noqa: F401
from gym_gridverse.grid_object import Color, GridObject


class Cleats(GridObject):
    state_index = 0
    color = Color.NONE
    blocks_movement = False
    blocks_vision = False
    holdable = True

    @classmethod
    def can_be_represented_in_state(cls):
        return True

    @classmethod
    def num_states(cls):
        return 1

    def __repr__(self):
        return 'Cleats()'

    def __len__(self):
        # a legal user object may be *falsy* (an empty container): nothing in the library may decide by truthiness
        return 0


class Curtain(GridObject):
    state_index = 0
    color = Color.NONE
    blocks_movement = False
    holdable = False

    def __init__(self, opaque=False):
        self.opaque = bool(opaque)
        super().__init__()

    @property
    def blocks_vision(self):
        return self.opaque

    @classmethod
    def can_be_represented_in_state(cls):
        return False

    @classmethod
    def num_states(cls):
        return 1

    def verif_extra(self):
        return ('opaque', self.opaque)

    def __repr__(self):
        return f'Curtain({self.opaque})'


def enable(cleats=False, curtain=False, subclasses=False):
    """add the custom types to the generators' type pool of this process"""
    from . import gen
    g = globals()
    if cleats and Cleats not in gen.GRID_TYPES:
        gen.GRID_TYPES.append(Cleats)
        gen.HOLDABLE_TYPES.append(Cleats)
    if curtain and Curtain not in gen.GRID_TYPES:
        gen.GRID_TYPES.append(Curtain)
    if subclasses:
        for name in ('Patrol', 'GoalExit', 'Gate'):
            if g[name] not in gen.GRID_TYPES:
                gen.GRID_TYPES.append(g[name])
    return Cleats, Curtain


# ---- user-defined subclasses of concrete built-in types: the components decide by isinstance, equality by type index
from gym_gridverse.grid_object import Door, Exit, MovingObstacle  # noqa: E402


class Patrol(MovingObstacle):
    """a moving obstacle of a derived class"""

    def __repr__(self):
        return 'Patrol()'


class GoalExit(Exit):
    """an exit of a derived class"""

    def __repr__(self):
        return f'GoalExit({self.color!s})'


class Gate(Door):
    """a door of a derived class (own registry index: never equal to a Door)"""

    def __repr__(self):
        return f'Gate({self.state!s}, {self.color!s})'


class Countdown(GridObject):
    """an object with many statuses (encoded values beyond one byte)"""

    color = Color.NONE
    blocks_movement = False
    blocks_vision = False
    holdable = False

    def __init__(self, k=0):
        self.k = int(k)
        super().__init__()

    @property
    def state_index(self):
        return self.k

    @classmethod
    def can_be_represented_in_state(cls):
        return True

    @classmethod
    def num_states(cls):
        return 300

    def __repr__(self):
        return f'Countdown({self.k})'
