"""Monitoring primitives: reach maps (sys.monitoring), attribute wrapping on
registries + modules, and classification of exceptions raised inside calls of
the repository.
"""
from . import boot
import contextlib
import functools
import sys
import traceback
import types

TOOL_ID = 3  # sys.monitoring tool slot used by the reach map


class ReachMap:
    """Records which lines of the anchored functions a workload executed.
    LINE events with DISABLE after the first hit: cost is negligible."""

    def __init__(self, functions):
        self.codes = {}
        for f in functions:
            f = getattr(f, '__wrapped__', f)
            f = getattr(f, '__func__', f)
            code = getattr(f, '__code__', None)
            if code is None:
                continue
            name = f'{f.__module__.split(".")[-1]}.{f.__qualname__}'
            for c in self._nested(code):
                self.codes[c] = name
        self.lines = {name: set() for name in self.codes.values()}
        self.totals = {}
        for c, name in self.codes.items():
            s = self.totals.setdefault(name, set())
            s.update(line for _, _, line in c.co_lines() if line is not None and line != c.co_firstlineno)
        self.active = False

    @staticmethod
    def _nested(code):
        yield code
        for const in code.co_consts:
            if isinstance(const, types.CodeType):
                yield from ReachMap._nested(const)

    def start(self):
        mon = getattr(sys, 'monitoring', None)
        if mon is None:
            return
        try:
            mon.use_tool_id(TOOL_ID, 'gvmon-reach')
        except ValueError:
            return
        mon.register_callback(TOOL_ID, mon.events.LINE, self._on_line)
        for c in self.codes:
            mon.set_local_events(TOOL_ID, c, mon.events.LINE)
        self.active = True

    def _on_line(self, code, line):
        name = self.codes.get(code)
        if name is not None:
            self.lines[name].add(line)
        return sys.monitoring.DISABLE

    def stop(self):
        if not self.active:
            return
        mon = sys.monitoring
        for c in self.codes:
            mon.set_local_events(TOOL_ID, c, 0)
        mon.register_callback(TOOL_ID, mon.events.LINE, None)
        mon.free_tool_id(TOOL_ID)
        self.active = False

    def report(self):
        return {
            name: [sorted(self.lines[name] & self.totals[name]), len(self.totals[name])]
            for name in self.lines
        }


@contextlib.contextmanager
def reach(ctx, functions):
    rm = ReachMap(functions)
    rm.start()
    try:
        yield rm
    finally:
        rm.stop()
        for name, (lines, total) in rm.report().items():
            cur = ctx.reach.setdefault(name, [[], total])
            cur[0] = sorted(set(cur[0]) | set(lines))


# ------------------------------------------------------------------ exceptions


def innermost_frame_file(exc):
    tb = exc.__traceback__
    last = None
    while tb is not None:
        last = tb.tb_frame.f_code.co_filename
        tb = tb.tb_next
    return last


def raised_by_harness(exc):
    """True if the exception was raised by gvmon's own code (a harness error,
    never data for a monitor)"""
    f = innermost_frame_file(exc)
    # scripted_rng.py stands in for numpy: what it raises (e.g. choice(0)) is
    # the library's behaviour as seen by the repository, not a harness error
    return f is not None and boot.in_harness(f) and not f.endswith('scripted_rng.py')


def describe_exc(exc):
    tb = traceback.extract_tb(exc.__traceback__)
    where = ''
    for fr in reversed(tb):
        if boot.in_repo(fr.filename):
            where = f' at {fr.filename.replace(boot.REPO + "/", "")}:{fr.lineno} in {fr.name}'
            break
    return f'{type(exc).__name__}: {str(exc)[:160]}{where}'


def exc_site(exc):
    """repo function in which the exception surfaced (mechanism key material)"""
    tb = traceback.extract_tb(exc.__traceback__)
    # prefer the deepest frame inside a component module (the component is the
    # mechanism); helpers such as Grid.__getitem__ are shared by many
    for fr in reversed(tb):
        if boot.in_repo(fr.filename) and fr.filename.endswith('_functions.py'):
            mod = fr.filename.rsplit('/', 1)[-1][:-3]
            return f'{mod}.{fr.name}'
    for fr in reversed(tb):
        if boot.in_repo(fr.filename):
            mod = fr.filename.rsplit('/', 1)[-1][:-3]
            return f'{mod}.{fr.name}'
    return 'unknown'


class HarnessError(Exception):
    pass


def call_real(fn, *args, **kwargs):
    """call repository code; return (ok, value_or_exception).  Exceptions
    raised by harness code (wrappers, scripted rng misuse) propagate."""
    try:
        return True, fn(*args, **kwargs)
    except Exception as e:  # noqa
        if raised_by_harness(e):
            raise
        return False, e


# ------------------------------------------------------------------ wrapping


class Patch:
    """Replace attributes/registry entries by wrappers; restore on exit."""

    def __init__(self):
        self._undo = []

    def attr(self, owner, name, make_wrapper):
        orig = getattr(owner, name)
        wrapped = make_wrapper(orig)
        setattr(owner, name, wrapped)
        self._undo.append(lambda: setattr(owner, name, orig))
        return orig

    def item(self, mapping, key, make_wrapper):
        orig = mapping[key]
        data = getattr(mapping, 'data', mapping)
        data[key] = make_wrapper(orig)
        self._undo.append(lambda: data.__setitem__(key, orig))
        return orig

    def registry_and_module(self, registry, module, name, make_wrapper):
        """wrap the registry entry *and* the module attribute with the same
        wrapper object, so composites (which call module globals) and
        factories (which look up the registry) are both observed"""
        orig = registry[name]
        wrapped = make_wrapper(orig)
        functools.update_wrapper(wrapped, orig)
        registry.data[name] = wrapped
        self._undo.append(lambda: registry.data.__setitem__(name, orig))
        if getattr(module, name, None) is orig:
            setattr(module, name, wrapped)
            self._undo.append(lambda: setattr(module, name, orig))
        return orig

    def restore(self):
        while self._undo:
            self._undo.pop()()

    def __enter__(self):
        return self

    def __exit__(self, *a):
        self.restore()


# ---------------------------------------------------------------- environment slots
# The harness sometimes has to reach into an environment object (swap its generator for a scripted one, spy on its reward
# function, put it into a given state).  The attributes are found by what they hold, not by their private names, so that a
# rename inside the library does not break (or silently disable) a check.


def env_slot(env, kind):
    """name of the instance attribute holding the environment's generator ('rng'), reward function ('reward') or termination
    function ('termination'); None if it cannot be identified"""
    import numpy as _np
    d = vars(env)
    if kind == 'rng':
        names = [k for k, v in d.items() if isinstance(v, _np.random.Generator) or type(v).__name__ == 'ScriptedRng']
    elif kind == 'reward':
        names = [k for k, v in d.items() if 'reward' in k.lower() and callable(v)]
    elif kind == 'termination':
        names = [k for k, v in d.items() if 'termina' in k.lower() and callable(v)]
    else:
        raise ValueError(kind)
    return names[0] if len(names) == 1 else None


def env_rng_slots(env):
    """names of all instance attributes holding a generator (an environment may keep separate streams)"""
    import numpy as _np
    return sorted(k for k, v in vars(env).items() if isinstance(v, _np.random.Generator) or type(v).__name__ == 'ScriptedRng')


def env_rng(env):
    """the environment's generator (the first one if it keeps several)"""
    names = env_rng_slots(env)
    return getattr(env, names[0]) if names else None


def env_rng_state_repr(env):
    """printable state of every generator the environment holds (None if it holds none)"""
    names = env_rng_slots(env)
    if not names:
        return None
    return repr([(n, getattr(env, n).bit_generator.state) for n in names if hasattr(getattr(env, n), 'bit_generator')])


def stateful_slots(env):
    """(state slot, observation-memo slot) of an environment that has just been reset and observed, identified by identity
    with what the public properties return; (None, None) if the environment does not keep them as plain attributes"""
    try:
        s, o = env.state, env.observation
    except Exception:  # noqa
        return None, None
    d = vars(env)
    ss = [k for k, v in d.items() if v is s]
    os_ = [k for k, v in d.items() if v is o]
    return (ss[0] if len(ss) == 1 else None), (os_[0] if len(os_) == 1 else None)
