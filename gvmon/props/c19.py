"""C19 — rays are connected paths that sweep the whole area.  See DESIGN.md §2 C19."""
from .. import boot  # noqa: F401
import math

import numpy as np

from gym_gridverse.envs import visibility_functions as visibility_fs
from gym_gridverse.geometry import Area, Position
from gym_gridverse.grid import Grid
from gym_gridverse.grid_object import Floor
from gym_gridverse.utils import raytracing as rt

from .. import enc, gen
from ..monitor import call_real, describe_exc, reach

ID = 'C19'
LEVEL = 'exploration'
TECHNIQUE = 'runtime monitoring: direct invariant checks on every ray returned by the real compute_ray/compute_rays/compute_rays_fancy (origin, containment, uniqueness, 8-adjacency, border end) and on fan coverage; cache-history monitor comparing cached and uncached answers under shuffled query orders'
LEVEL_TEXT = ('Every ray of every fan computed by the real functions is checked directly: starts at the origin, stays in the area, '
              'visits no cell twice, advances between edge- or corner-sharing cells, ends on the border; the union of the fan '
              '(compute_rays_fancy) must be the whole area, and an unobstructed ray-traced visibility must be all-true. All '
              'areas up to 6x6 (thorough 11x11) x all origins are enumerated with several anchor offsets incl. negative; the '
              'shipped 7x7 view completely. Cached answers are compared with uncached ones after cache_clear() and under '
              'shuffled query orders.'
              ' Also: confusable cache keys, float / numpy-valued equal origins, integer cells, single rays in areas of 1000-4000 cells, every parametrisation of the unobstructed view and the largest possible uniform draw.')
LEVEL_NOTE = 'Coverage is claimed for the compute_rays_fancy fan only (compute_ray / compute_rays get the per-ray checks).'
SHARDS = {'quick': 4, 'thorough': 16}
BUDGET_S = {'quick': 300, 'thorough': 2400}
RULE = ('case = (area, origin) with its whole fan (each ray checked). non-trivial = area with at least 2 cells; distinct by '
        '(area, origin).')
ASSUMPTIONS = ['border = cells with y in {ymin,ymax} or x in {xmin,xmax}']
EXHAUSTIVE_NOTE = 'all areas h,w<=6 (thorough <=11) x all origins, anchored at (0,0) and at shifted/negative offsets; 7x7 view with all origins'
REQUIRED = {'quick': {'rays.checked': 5000, 'fans.checked': 300, 'cache.compared': 100, 'single_ray.checked': 300,
                      'unobstructed_visibility': 50, 'cache.both_fans': 30, 'huge_areas': 8}}


def check_ray(ctx, ray, origin, area, label, payload):
    ctx.hit('rays.checked')
    if not ray:
        ctx.violation('rays', 'ray.empty', f'{label}: empty ray', 'fan_case', payload)
        return
    cells = [(p.y, p.x) for p in ray]
    odd = [c for c in cells if not all(isinstance(v, (int, np.integer)) and not isinstance(v, bool) for v in c)]
    if odd:
        ctx.violation('rays', 'ray.non_integer_cell', f'{label}: ray contains cells with non-integer coordinates {odd[:3]!r} (cells are '
                      f'used as grid indices)', 'fan_case', payload)
    if cells[0] != (origin.y, origin.x):
        ctx.violation('rays', 'ray.start', f'{label}: ray starts at {cells[0]} not at the origin {(origin.y, origin.x)}', 'fan_case', payload)
    out = [c for c in cells if not (area.ymin <= c[0] <= area.ymax and area.xmin <= c[1] <= area.xmax)]
    if out:
        ctx.violation('rays', 'ray.leaves_area', f'{label}: ray leaves the area at {out[:3]}', 'fan_case', payload)
    if len(set(cells)) != len(cells):
        ctx.violation('rays', 'ray.repeats', f'{label}: ray repeats a cell: {cells}', 'fan_case', payload)
    for a, b in zip(cells, cells[1:]):
        if max(abs(a[0] - b[0]), abs(a[1] - b[1])) != 1:
            ctx.violation('rays', 'ray.not_adjacent', f'{label}: consecutive cells {a}->{b} are not adjacent (ray {cells})', 'fan_case', payload)
            break
    last = cells[-1]
    if not (last[0] in (area.ymin, area.ymax) or last[1] in (area.xmin, area.xmax)):
        ctx.violation('rays', 'ray.ends_inside', f'{label}: ray ends at {last}, not on the border of {area}', 'fan_case', payload)


def fan_case(ctx, area, origin, fancy=True, full=True):
    payload = {'area': [[area.ymin, area.ymax], [area.xmin, area.xmax]], 'origin': [origin.y, origin.x], 'fancy': fancy}
    label = f'area {payload["area"]} origin {payload["origin"]}'
    f = rt.compute_rays_fancy if fancy else rt.compute_rays
    ok, rays = call_real(f, origin, area)
    ctx.ev()
    if not ok:
        ctx.violation('rays', 'fan.raises', f'{label}: {describe_exc(rays)}', 'fan_case', payload)
        return None
    ctx.hit('fans.checked')
    for ray in rays:
        check_ray(ctx, ray, origin, area, label, payload)
    if fancy:
        covered = {(p.y, p.x) for ray in rays for p in ray}
        want = {(y, x) for y in range(area.ymin, area.ymax + 1) for x in range(area.xmin, area.xmax + 1)}
        if want - covered:
            ctx.violation('rays', 'fan.misses_cells', f'{label}: cells {sorted(want - covered)[:6]} are reached by no ray of the fan',
                          'fan_case', payload)
    if area.height * area.width >= 2:
        ctx.nontrivial((payload['area'], payload['origin'], fancy))
    return rays


def as_cells(rays):
    # (value, is-integer) per coordinate: 6.0 == 6 in Python, but only the integer can index a grid
    return [[(p.y, p.x, isinstance(p.y, (int, np.integer)), isinstance(p.x, (int, np.integer))) for p in ray] for ray in rays]


def clear_caches():
    """cache_clear() where the cached wrappers offer it (an implementation detail, not part of the property)"""
    for f in (rt.cached_compute_rays_fancy, rt.cached_compute_rays):
        clear = getattr(f, 'cache_clear', None)
        if clear is not None:
            clear()


def cache_history(ctx, queries, rng):
    """cached vs uncached answers (both cached fans, any order of earlier queries), also after cache_clear()"""
    clear_caches()
    truth = {}
    for (origin, area) in queries:
        ok, rays = call_real(rt.compute_rays_fancy, origin, area)
        if ok:
            truth[(origin, area)] = as_cells(rays)
    for rep in range(3):
        order = list(queries)
        rng.shuffle(order)
        if rep == 1:
            clear_caches()
        for qi, (origin, area) in enumerate(order + order[: len(order) // 2]):
            if qi % 4 == rep:
                # the same origin written with float / numpy coordinates (equal and hash-equal to the integer one) asked first:
                # whatever ends up in the cache for it is what the integer question gets
                alias = Position(float(origin.y), float(origin.x)) if qi % 8 < 4 else Position(np.int64(origin.y), np.int64(origin.x))
                oka, ra = call_real(rt.cached_compute_rays_fancy, alias, area)
                ctx.hit('cache.aliased_origin')
                if oka and (origin, area) in truth and [[c[:2] for c in r] for r in as_cells(ra)] != [[c[:2] for c in r] for r in truth[(origin, area)]]:
                    ctx.violation('rays', 'cache.differs', f'cached fan for origin {alias!r} area {area} differs from the uncached '
                                  f'computation for the equal origin {origin!r}', 'fan_case',
                                  {'area': [[area.ymin, area.ymax], [area.xmin, area.xmax]], 'origin': [origin.y, origin.x], 'fancy': True})
            if qi % 5 == rep:
                # the 1-degree fan of the same origin and area, queried through its own cached wrapper, before or after
                ok1, r1 = call_real(rt.cached_compute_rays, origin, area)
                ok0, r0 = call_real(rt.compute_rays, origin, area)
                ctx.hit('cache.compared')
                ctx.hit('cache.both_fans')
                if ok1 != ok0 or (ok1 and as_cells(r1) != as_cells(r0)):
                    ctx.violation('rays', 'cache.differs', f'cached 1-degree fan for origin {(origin.y, origin.x)} area {area} differs from '
                                  f'the uncached computation ({len(r1) if ok1 else None} vs {len(r0) if ok0 else None} rays)', 'fan_case',
                                  {'area': [[area.ymin, area.ymax], [area.xmin, area.xmax]], 'origin': [origin.y, origin.x], 'fancy': False})
            ok, rays = call_real(rt.cached_compute_rays_fancy, origin, area)
            ctx.ev()
            ctx.hit('cache.compared')
            got = as_cells(rays) if ok else None
            if (origin, area) in truth and got != truth[(origin, area)]:
                ctx.violation('rays', 'cache.differs', f'cached fan for origin {(origin.y, origin.x)} area {area} differs from the '
                              f'uncached computation (query #{rep})', 'fan_case',
                              {'area': [[area.ymin, area.ymax], [area.xmin, area.xmax]], 'origin': [origin.y, origin.x], 'fancy': True})
            # a caller scribbling on a *copy* must not matter
            if got:
                scratch = [list(r) for r in rays]
                scratch.reverse()
    # recomputation is deterministic
    for (origin, area) in queries[:10]:
        ok, rays = call_real(rt.compute_rays_fancy, origin, area)
        if ok and as_cells(rays) != truth.get((origin, area)):
            ctx.violation('rays', 'fan.nondeterministic', f'two computations differ for origin {origin} area {area}', 'fan_case',
                          {'area': [[area.ymin, area.ymax], [area.xmin, area.xmax]], 'origin': [origin.y, origin.x], 'fancy': True})


class _LargestDraw:
    def random(self, size=None, *a, **k):
        v = float(np.nextafter(1.0, 0.0))
        return v if size is None else np.full(size, v)


def unobstructed(ctx, h, w, origin):
    """an unobstructed ray-traced view shows everything"""
    grid = Grid([[Floor() for _ in range(w)] for _ in range(h)])
    ok, vis = call_real(visibility_fs.visibility_function_registry['raytracing'], grid, origin)
    ctx.ev()
    ctx.hit('unobstructed_visibility')
    if not ok:
        ctx.violation('rays', 'visibility.raises', describe_exc(vis), 'vis_case', {'shape': [h, w], 'origin': [origin.y, origin.x]})
    elif not bool(vis.all()):
        missing = [(y, x) for y in range(h) for x in range(w) if not vis[y, x]]
        ctx.violation('rays', 'visibility.unobstructed_hides', f'unobstructed {h}x{w} view from {(origin.y, origin.x)} hides {missing[:6]}',
                      'vis_case', {'shape': [h, w], 'origin': [origin.y, origin.x]})
    # the same through the other parametrisations of the ray-traced view: with nothing in the way every ray reaches every cell
    # lit, so every absolute count is >= 1 and every lit fraction is exactly 1
    for kw in ({'absolute_counts': False, 'threshold': 1}, {'absolute_counts': False, 'threshold': 1.0},
               {'absolute_counts': False, 'threshold': 0.5}, {'absolute_counts': True, 'threshold': 1}):
        ok, vis = call_real(visibility_fs.visibility_function_registry['raytracing'], grid, origin, **kw)
        ctx.hit('unobstructed_visibility.parametrised')
        if ok and not bool(vis.all()):
            missing = [(y, x) for y in range(h) for x in range(w) if not vis[y, x]]
            ctx.violation('rays', 'visibility.unobstructed_hides', f'unobstructed {h}x{w} view from {(origin.y, origin.x)} with {kw} hides '
                          f'{missing[:6]}', 'vis_case', {'shape': [h, w], 'origin': [origin.y, origin.x]})
    # stochastic variant: with nothing in the way every cell is lit on every ray, whatever the generator returns
    for seed in (0, 1, 'largest_draw'):
        # the last generator returns the largest possible uniform draw (just below 1) for every cell
        g = np.random.default_rng(seed) if seed != 'largest_draw' else _LargestDraw()
        ok, vis = call_real(visibility_fs.visibility_function_registry['stochastic_raytracing'], grid, origin, rng=g)
        if ok and not bool(vis.all()):
            missing = [(y, x) for y in range(h) for x in range(w) if not vis[y, x]]
            ctx.violation('rays', 'visibility.unobstructed_hides', f'unobstructed {h}x{w} stochastic view from {(origin.y, origin.x)} hides '
                          f'{missing[:6]}', 'vis_case', {'shape': [h, w], 'origin': [origin.y, origin.x]})


def run(ctx):
    with reach(ctx, [rt.compute_ray, rt.compute_rays, rt.compute_rays_fancy]):
        hmax = ctx.pick(6, 11)
        idx = 0
        offsets = [(0, 0), (-3, 2), (-7, -7), (11, -4)]
        for h in range(1, hmax + 1):
            for w in range(1, hmax + 1):
                for oy in range(h):
                    for ox in range(w):
                        idx += 1
                        if not ctx.mine(idx):
                            continue
                        if ctx.out_of_time(0.8):
                            ctx.extra['exhaustive'] = False
                            ctx.add('fans_skipped_for_time')
                            continue
                        dy, dx = offsets[idx % len(offsets)] if (h > 5 or w > 5 or not ctx.thorough) else (None, None)
                        offs = [offsets[idx % len(offsets)]] if dy is not None else offsets
                        for (dy, dx) in offs:
                            area = Area((dy, dy + h - 1), (dx, dx + w - 1))
                            fan_case(ctx, area, Position(dy + oy, dx + ox))
                        if idx % 4 == 0:
                            unobstructed(ctx, h, w, Position(oy, ox))
                        if idx % 211 == 0:
                            ctx.sample('fan', {'shape': [h, w], 'origin': [oy, ox]})
        # the shipped 7x7 view [(-6,0),(-3,3)], every origin (the agent's is (0,0) in view coordinates (6,3))
        view = Area((-6, 0), (-3, 3))
        k = 0
        for y in range(-6, 1):
            for x in range(-3, 4):
                k += 1
                if ctx.mine(k) and (ctx.thorough or (y, x) == (0, 0) or k % 6 == 0):
                    fan_case(ctx, view, Position(y, x))
        # corners and edge midpoints of larger (near-)square areas: the longest rays
        big = [(7, 7), (8, 8), (9, 9), (7, 9), (9, 6)] + ([(11, 11), (12, 10), (13, 13)] if ctx.thorough else [])
        for bi, (h, w) in enumerate(big):
            for oi, (oy, ox) in enumerate([(0, 0), (0, w - 1), (h - 1, 0), (h - 1, w - 1), (0, w // 2), (h // 2, 0), (h - 1, w // 2)]):
                if ctx.mine(bi * 7 + oi):
                    fan_case(ctx, Area((0, h - 1), (0, w - 1)), Position(oy, ox))
                    unobstructed(ctx, h, w, Position(oy, ox))
        # very elongated and large areas (rays of 100+ cells, fans of 256+ rays through the origin)
        huge = [(1, 104, 0, 0), (1, 127, 0, 0), (1, 129, 0, 0), (1, 130, 0, 0), (3, 63, 1, 0), (15, 15, 14, 7), (15, 15, 0, 0),
                (7, 31, 6, 15), (31, 7, 30, 3), (2, 200, 1, 199), (3, 108, 0, 0)] + ([(17, 17, 8, 8), (1, 300, 0, 150), (40, 3, 0, 1)] if ctx.thorough else [])
        for hi, (h, w, oy, ox) in enumerate(huge):
            if ctx.mine(hi + 3):
                dy, dx = (0, 0) if hi % 2 == 0 else (-2, 5)
                fan_case(ctx, Area((dy, dy + h - 1), (dx, dx + w - 1)), Position(dy + oy, dx + ox))
                unobstructed(ctx, h, w, Position(oy, ox))
                ctx.hit('huge_areas')
        if ctx.shard == 0:
            fan_case(ctx, Area((0, 6), (0, 6)), Position(6, 3))
            unobstructed(ctx, 7, 7, Position(6, 3))
        # 1-degree fans and single rays
        for k in range(ctx.pick(6, 200)):
            rng = gen.rng_for('C19deg', ctx.seed, ctx.shard, k)
            h, w = rng.randint(1, 7), rng.randint(1, 7)
            dy, dx = rng.randint(-5, 5), rng.randint(-5, 5)
            area = Area((dy, dy + h - 1), (dx, dx + w - 1))
            origin = Position(dy + rng.randrange(h), dx + rng.randrange(w))
            fan_case(ctx, area, origin, fancy=False)
            for _ in range(60):
                rad = rng.uniform(-math.pi, 2 * math.pi)
                ok, ray = call_real(rt.compute_ray, origin, area, radians=rad, step_size=0.01)
                ctx.ev()
                ctx.hit('single_ray.checked')
                pl = {'area': [[area.ymin, area.ymax], [area.xmin, area.xmax]], 'origin': [origin.y, origin.x], 'radians': rad}
                if not ok:
                    ctx.violation('rays', 'ray.raises', describe_exc(ray), 'ray_case', pl)
                else:
                    check_ray(ctx, ray, origin, area, f'ray {pl}', pl)
                    ok2, ray2 = call_real(rt.compute_ray, origin, area, radians=rad, step_size=0.01)
                    if ok2 and as_cells([ray]) != as_cells([ray2]):
                        ctx.violation('rays', 'ray.nondeterministic', f'{pl}: two computations differ', 'ray_case', pl)
        # single rays in areas more than a thousand cells long (whole fans are out of reach there: minutes each)
        for k in range(ctx.pick(6, 60)):
            if not ctx.mine(k):
                continue
            rng = gen.rng_for('C19long', ctx.seed, k)
            length = rng.choice([1001, 1200, 1500, 2500, 4097])
            h, w = (rng.randint(1, 3), length) if k % 2 else (length, rng.randint(1, 3))
            area = Area((0, h - 1), (0, w - 1))
            origin = Position(rng.randrange(min(h, 3)), rng.randrange(min(w, 3)))
            far = (h - 1, rng.randrange(w)) if h > w else (rng.randrange(h), w - 1)
            rad = math.atan2(far[0] - origin.y, far[1] - origin.x)
            for r in (rad, rad + 1e-4, rad - 1e-4):
                ok, ray = call_real(rt.compute_ray, origin, area, radians=r, step_size=0.01)
                ctx.ev()
                ctx.hit('long_ray.checked')
                pl = {'area': [[area.ymin, area.ymax], [area.xmin, area.xmax]], 'origin': [origin.y, origin.x], 'radians': r}
                if not ok:
                    ctx.violation('rays', 'ray.raises', describe_exc(ray), 'ray_case', pl)
                else:
                    check_ray(ctx, ray, origin, area, f'ray {pl}', pl)
        # cache histories
        rng = gen.rng_for('C19cache', ctx.seed, ctx.shard)
        queries = []
        for _ in range(ctx.pick(30, 400)):
            h, w = rng.randint(1, 5), rng.randint(1, 5)
            dy, dx = rng.randint(-4, 4), rng.randint(-4, 4)
            queries.append((Position(dy + rng.randrange(h), dx + rng.randrange(w)), Area((dy, dy + h - 1), (dx, dx + w - 1))))
        # same origin and same shape under different anchors: answers must not be confused
        for _ in range(ctx.pick(10, 40)):
            h, w = rng.randint(2, 5), rng.randint(2, 5)
            y, x = rng.randrange(1, h), rng.randrange(1, w)
            queries.append((Position(y, x), Area((0, h - 1), (0, w - 1))))
            queries.append((Position(y, x), Area((1, h), (1, w))))
            queries.append((Position(y, x), Area((y - h + 1, y), (x - w + 1, x))))
        cache_history(ctx, queries, rng)
        # origins / areas whose printed coordinates run together to the same digits ((1,12) and (11,2); rows -1..12 and
        # -11..2): whatever the caches key on, these are different questions
        confusable = []
        big = Area((0, 11), (0, 12))
        for (p, q) in rng.sample([((1, 12), (11, 2)), ((1, 10), (11, 0)), ((1, 11), (11, 1))], ctx.pick(1, 3)):
            confusable += [(Position(*p), big), (Position(*q), big)]
        confusable += [(Position(0, 0), Area((-1, 12), (-1, 1))), (Position(0, 0), Area((-11, 2), (-1, 1))),
                       (Position(0, 0), Area((-1, 0), (-1, 12))), (Position(0, 0), Area((-1, 0), (-11, 2))),
                       (Position(1, 1), Area((0, 1), (-2, 13))), (Position(1, 1), Area((0, 1), (-21, 3)))]
        if ctx.mine(1):
            cache_history(ctx, confusable, rng)
            ctx.hit('cache.confusable_keys', len(confusable))
        ctx.extra.setdefault('exhaustive', True)


def replay(ctx, kind, payload):
    if kind == 'fan_case':
        a = payload['area']
        fan_case(ctx, Area((a[0][0], a[0][1]), (a[1][0], a[1][1])), Position(*payload['origin']), payload.get('fancy', True))
    elif kind == 'ray_case':
        a = payload['area']
        area = Area((a[0][0], a[0][1]), (a[1][0], a[1][1]))
        origin = Position(*payload['origin'])
        ok, ray = call_real(rt.compute_ray, origin, area, radians=payload['radians'], step_size=0.01)
        ctx.ev()
        if ok:
            check_ray(ctx, ray, origin, area, 'replay', payload)
    elif kind == 'vis_case':
        unobstructed(ctx, payload['shape'][0], payload['shape'][1], Position(*payload['origin']))
