"""C10 — doors, keys and boxes respond only to a faced ACTUATE, and only as
documented.  See DESIGN.md §2 C10."""
from .. import boot  # noqa: F401
import numpy as np

from gym_gridverse.action import Action
from gym_gridverse.envs import transition_functions as transition_fs
from gym_gridverse.agent import Agent
from gym_gridverse.geometry import Area, Position, Shape
from gym_gridverse.grid import Grid
from gym_gridverse.state import State
from gym_gridverse.grid_object import Box, Color, Door, Exit, Floor, Key, MovingObstacle, NoneGridObject, Telepod, Wall

from .. import compose, dyndrive, dynmon, enc, gen, search, workloads
from ..monitor import Patch, call_real, describe_exc, reach

ID = 'C10'
LEVEL = 'exploration'
DEBUG_TOGGLE = True  # runner flips the library debug flag every 97 monitored executions
TECHNIQUE = 'runtime monitoring: door/box reference model at the transition-function hook over the full status x colour x held x relative-pose x action product; offline temporal checker on key-door histories; exhaustive BFS of the real step function over 5x5 key-door layouts asserting the safety invariant on every reachable transition'
LEVEL_TEXT = ('Every observed call of a transition function is checked cell by cell: a door may only change status under '
              'actuate_door + ACTUATE + facing, only towards OPEN, a LOCKED one iff a key of its colour is held; a box only '
              'under actuate_box + ACTUATE + facing, becoming its content; the held item never changes outside pickndrop. '
              'The product door status x 5 colours x 7 held items x 4 relative poses x 8 actions is enumerated each run; '
              'the reachable state graph of 5x5 key-door layouts is explored completely with the real functional_step and '
              'the rule asserted on every transition (plus: agent beyond the wall implies door open).'
              ' Also: worlds laid out with Grid.from_shape / design.draw_* and door / box factories, nested boxes through the stateful interface, two futures of one state (the first updated in place) compared with the reference.')
LEVEL_NOTE = ('Trusted: refmodel.ref_actuate_door/ref_actuate_box and the per-cell legality rule in dynmon.analyse. '
              'Larger layouts (7x7, 9x9) and random chains are sampled.')
SHARDS = {'quick': 4, 'thorough': 16}
BUDGET_S = {'quick': 300, 'thorough': 2400}
RULE = ('case = one observed call of a transition function or one transition of the key-door state graph. non-trivial = a '
        'door or box in the cell in front or adjacent, or a held key; distinct by (function, deep pre-state encoding, action) '
        'resp. (state encoding, action).')
ASSUMPTIONS = ['door/box reference semantics from the statement and the Door docstring']
EXHAUSTIVE_NOTE = 'product status x colour x held x relative pose x action (3x3 grids); full reachable graph of key-door 5x5 layouts (one per door row)'
REQUIRED = {'quick': {'fn.actuate_door': 3000, 'fn.actuate_box': 3000, 'product.cases': 2000, 'event.locked_opened': 20,
                      'event.locked_refused': 50, 'event.closed_opened': 50, 'event.box_opened': 50,
                      'graph.transitions': 2000, 'history.steps': 500, 'flags.door': 3, 'product.with_obstacles': 100, 'stateful.steps': 400,
                      'constructed.worlds': 80, 'branching.cases': 150, 'constructed.steps': 500}}
ASPECTS = ('door', 'box', 'key')


def product(ctx):
    """door status x door colour x held x relative pose x action; boxes likewise"""
    h = w = 3
    colours = list(Color)
    held_kinds = [('none', lambda: NoneGridObject())] + [(f'Key.{c.name}', (lambda c=c: Key(c))) for c in colours] \
        + [('Wall', lambda: Wall())]
    idx = 0
    subjects = [(f'Door.{st.name}.{c.name}', (lambda st=st, c=c: Door(st, c))) for st in Door.Status for c in colours]
    subjects += [('Box.Key', lambda: Box(Key(Color.RED))), ('Box.Floor', lambda: Box(Floor())),
                 ('Box.Box', lambda: Box(Box(Exit()))), ('Box.Door', lambda: Box(Door(Door.Status.LOCKED, Color.BLUE)))]
    # relative poses: (agent y, x, heading, subject y, x)
    poses = [
        ('facing', (1, 1, gen.ORIENTATIONS[0], 0, 1)),
        ('facing_right', (1, 1, gen.ORIENTATIONS[1], 1, 2)),
        ('adjacent_not_facing', (1, 1, gen.ORIENTATIONS[1], 0, 1)),
        ('behind', (1, 1, gen.ORIENTATIONS[0], 2, 1)),
        ('distant', (2, 0, gen.ORIENTATIONS[0], 0, 2)),
        ('wrapped_top', (0, 1, gen.ORIENTATIONS[0], 2, 1)),     # facing out of the top edge, subject on the bottom row
        ('wrapped_left', (1, 0, gen.ORIENTATIONS[3], 1, 2)),    # facing out of the left edge, subject on the right column
        ('under_agent', (1, 1, gen.ORIENTATIONS[2], 1, 1)),
    ]
    for sn, mk in subjects:
        for hn, hk in held_kinds:
            for pn, (ay, ax, heading, sy, sx) in poses:
                idx += 1
                if not ctx.mine(idx):
                    continue
                s = dyndrive.floor_state(h, w, ay, ax, heading, hk())
                s.grid[sy, sx] = mk()
                if idx % 3 == 0:
                    # moving obstacles around the subject (and a telepod under the agent): the stochastic dynamics must not
                    # touch doors or boxes either
                    for (oy, ox) in ((sy - 1, sx), (sy + 1, sx), (sy, sx - 1), (sy, sx + 1)):
                        if 0 <= oy < h and 0 <= ox < w and (oy, ox) != (ay, ax) and type(s.grid[oy, ox]) is Floor:
                            s.grid[oy, ox] = MovingObstacle()
                    ctx.hit('product.with_obstacles')
                for action in Action:
                    ctx.hit('product.cases')
                    ctx.nontrivial(('prod', sn, hn, pn, action.name))
                    for name in dynmon.FUNCTIONS:
                        dyndrive.apply_fn(ctx, name, dyndrive.copy_state(s), action)
                if idx % 53 == 0:
                    ctx.sample('product', {'subject': sn, 'held': hn, 'pose': pn})


def stateful_path(ctx, n):
    """the same rules through the stateful interface (InnerEnv.step), incl. repeated ACTUATE on nested boxes: what
    env.state shows after each step must be what the reference predicts (deep comparison, box contents included)"""
    from .. import refmodel
    names = ['move_agent', 'turn_agent', 'actuate_door', 'actuate_box', 'pickndrop']
    chain = [{'name': n} for n in names]
    for k in range(n):
        rng = gen.rng_for('C10stateful', ctx.seed, ctx.shard, k)
        h, w = rng.randint(2, 4), rng.randint(2, 4)
        state = dyndrive.floor_state(h, w, h - 1, rng.randrange(w), gen.ORIENTATIONS[0], NoneGridObject())
        fy, fx = gen.front_of(state)
        c = rng.choice(list(Color))
        subject = rng.choice([Box(Box(Key(c))), Box(Box(Box(Floor()))), Box(Door(Door.Status.CLOSED, c)), Door(Door.Status.CLOSED, c),
                              Door(Door.Status.LOCKED, c), Box(Key(c))])
        state.grid[fy, fx] = subject
        if rng.random() < 0.5:
            state.agent.grid_object = Key(c)
        env = compose.assemble((h, w), [Floor, Wall, Door, Key, Box, Exit], list(Color), list(Action),
                               compose.build('transition', {'name': 'chain', 'transition_functions': chain}),
                               compose.build('reward', {'name': 'living_reward'}), compose.build('terminating', {'name': 'reach_exit'}),
                               compose.build('observation', {'name': 'fully_transparent', 'area': [[-1, 0], [-1, 1]]}),
                               gen.Area((-1, 0), (-1, 1)), lambda rng=None, s=state: dyndrive.copy_state(s))
        env.reset()
        expected = enc.es(env.state)
        actions = [Action.ACTUATE] * 3 + [rng.choice(list(Action)) for _ in range(3)]
        for t, a in enumerate(actions):
            model = refmodel.ref_chain(env.state, names, a)
            ok, res = call_real(env.step, a)
            ctx.ev()
            ctx.hit('stateful.steps')
            if not ok:
                break
            if enc.es(env.state) != model:
                ctx.violation('box', 'stateful.state_differs_from_reference',
                              f'stateful step #{t} ({a.name}) facing {enc.eo(subject)}: env.state is not the state the door/box rules '
                              f'predict (cell in front now {enc.eo(env.state.grid[fy, fx]) if gen.in_grid(env.state, fy, fx) else None})',
                              'stateful_case', {'k': [ctx.seed, ctx.shard, k]})
                break


def branching(ctx, n):
    """two futures of one state: the first is explored through the functional interface and its states are then updated in
    place with the registry's own transition functions (they belong to the caller); afterwards the same first step is asked
    of the original state again - the door or box found there is the one the original state had, not one the other future
    opened"""
    from .. import refmodel
    names = ['move_agent', 'turn_agent', 'actuate_door', 'actuate_box', 'pickndrop']
    chain = [{'name': n_} for n_ in names]
    for k in range(n):
        rng = gen.rng_for('C10branch', ctx.seed, ctx.shard, k)
        h, w = rng.randint(2, 4), rng.randint(2, 4)
        c = rng.choice(list(Color))
        state = dyndrive.floor_state(h, w, h - 1, rng.randrange(w), gen.ORIENTATIONS[0], Key(c) if rng.random() < 0.6 else NoneGridObject())
        fy, fx = gen.front_of(state)
        subject = rng.choice([Box(Door(Door.Status.CLOSED, c)), Box(Door(Door.Status.LOCKED, c)), Box(Box(Door(Door.Status.CLOSED, c))),
                              Box(Box(Key(c))), Door(Door.Status.CLOSED, c), Box(Key(c))])
        state.grid[fy, fx] = subject
        env = compose.assemble((h, w), [Floor, Wall, Door, Key, Box, Exit], list(Color), list(Action),
                               compose.build('transition', {'name': 'chain', 'transition_functions': chain}),
                               compose.build('reward', {'name': 'living_reward'}), compose.build('terminating', {'name': 'reach_exit'}),
                               compose.build('observation', {'name': 'fully_transparent', 'area': [[-1, 0], [-1, 1]]}),
                               gen.Area((-1, 0), (-1, 1)), lambda rng=None, s=state: s)
        expected_first = refmodel.ref_chain(state, names, Action.ACTUATE)
        original = enc.es(state)
        cur = state
        for t in range(rng.randint(1, 3)):  # first future: functional steps ...
            ok, res = call_real(env.functional_step, cur, Action.ACTUATE)
            if not ok:
                break
            cur = res[0]
            for _ in range(2):        # ... whose states the caller then keeps updating in place
                for name in ('actuate_box', 'actuate_door'):
                    call_real(dyndrive.REG[name], cur, Action.ACTUATE, rng=None)
        ctx.ev()
        ctx.hit('branching.cases')
        if enc.es(state) != original:
            ctx.violation('door', 'branching.original_state_changed',
                          f'facing {enc.eo(subject)}: after a future of the state was explored and updated in place, the original state '
                          f'itself shows {enc.eo(state.grid[fy, fx])} in front', 'branching_case', {'k': [ctx.seed, ctx.shard, k]})
            continue
        ok, res = call_real(env.functional_step, state, Action.ACTUATE)
        if ok and enc.es(res[0]) != expected_first:
            ctx.violation('door', 'branching.second_future_differs',
                          f'facing {enc.eo(subject)}: the first ACTUATE, asked again after another future of the state was explored, '
                          f'reveals {enc.eo(res[0].grid[fy, fx])}', 'branching_case', {'k': [ctx.seed, ctx.shard, k]})


def constructed_worlds(ctx, n):
    """worlds laid out with the library's own construction helpers (Grid.from_shape, design.draw_*) and factories of doors
    and boxes, then driven through the stateful interface: each door / box is its own object, so opening the one in front
    leaves every other one as it was (deep comparison with the reference after every step)"""
    from .. import refmodel
    from gym_gridverse import design
    names = ['move_agent', 'turn_agent', 'actuate_door', 'actuate_box', 'pickndrop']
    chain = [{'name': n} for n in names]
    for k in range(n):
        rng = gen.rng_for('C10constructed', ctx.seed, ctx.shard, k)
        h, w = rng.randint(3, 6), rng.randint(3, 6)
        c = rng.choice(list(Color))
        factory = rng.choice([lambda: Door(Door.Status.CLOSED, c), lambda: Door(Door.Status.LOCKED, c), lambda: Box(Key(c)),
                              lambda: Box(Door(Door.Status.CLOSED, c)), lambda: Door(Door.Status.OPEN, c)])
        how = rng.choice(['from_shape', 'line_horizontal', 'line_vertical', 'room', 'room_grid', 'area_filled', 'cartesian'])
        if how == 'from_shape':
            ok, grid = call_real(Grid.from_shape, (h, w), factory=factory)
        else:
            ok, grid = call_real(Grid.from_shape, rng.choice([(h, w), Shape(h, w)]))
            if ok:
                if how == 'line_horizontal':
                    ok, _ = call_real(design.draw_line_horizontal, grid, rng.randrange(h), range(w), factory)
                elif how == 'line_vertical':
                    ok, _ = call_real(design.draw_line_vertical, grid, range(h), rng.randrange(w), factory)
                elif how == 'room':
                    ok, _ = call_real(design.draw_room, grid, Area((0, h - 1), (0, w - 1)), factory)
                elif how == 'room_grid':
                    ok, _ = call_real(design.draw_room_grid, grid, [0, h // 2, h - 1], [0, w // 2, w - 1], factory)
                elif how == 'area_filled':
                    ok, _ = call_real(design.draw_area, grid, Area((0, h // 2), (0, w // 2)), factory, fill=True)
                else:
                    ok, _ = call_real(design.draw_cartesian_product, grid, [0, h - 1], [0, w - 1, w // 2], factory)
        ctx.ev()
        if not ok:
            continue
        ctx.hit('constructed.worlds')
        ctx.cat('constructed.' + how)
        y, x = rng.randrange(h), rng.randrange(w)
        grid[y, x] = Floor()
        state = State(grid, Agent(Position(y, x), rng.choice(gen.ORIENTATIONS), Key(c) if rng.random() < 0.6 else NoneGridObject()))
        env = compose.assemble((h, w), [Floor, Wall, Door, Key, Box, Exit], list(Color), list(Action),
                               compose.build('transition', {'name': 'chain', 'transition_functions': chain}),
                               compose.build('reward', {'name': 'living_reward'}), compose.build('terminating', {'name': 'reach_exit'}),
                               compose.build('observation', {'name': 'fully_transparent', 'area': [[-1, 0], [-1, 1]]}),
                               gen.Area((-1, 0), (-1, 1)), lambda rng=None, s=state: s)
        env.reset()
        for t in range(10):
            a = rng.choice([Action.ACTUATE, Action.ACTUATE, Action.MOVE_FORWARD, Action.TURN_LEFT, Action.TURN_RIGHT, Action.PICK_N_DROP])
            model = refmodel.ref_chain(env.state, names, a)
            ok, res = call_real(env.step, a)
            ctx.ev()
            ctx.hit('constructed.steps')
            if not ok:
                break
            if enc.es(env.state) != model:
                diff = [(i // w, i % w) for i, (p, q) in enumerate(zip(enc.es(env.state)[0][2], model[0][2])) if p != q]
                ctx.violation('door', 'constructed.state_differs_from_reference',
                              f'world built with {how} and a door/box factory, step #{t} ({a.name}): env.state differs from what the '
                              f'door/box rules predict at cells {diff[:6]} (objects shared between cells?)',
                              'constructed_case', {'k': [ctx.seed, ctx.shard, k]})
                break


def count_events(ctx):
    def on_call(call):
        if call.exc is not None:
            return
        fy, fx = call.pre.front()
        if call.fn == 'actuate_door' and call.action is Action.ACTUATE and call.pre.inside(fy, fx):
            d = call.pre.rows[fy][fx]
            if isinstance(d, Door):
                opened = bool(call.diffs)
                if d.state is Door.Status.LOCKED:
                    ctx.hit('event.locked_opened' if opened else 'event.locked_refused')
                elif d.state is Door.Status.CLOSED:
                    ctx.hit('event.closed_opened' if opened else 'event.closed_refused')
                ctx.nontrivial(('door', call.pre_enc))
        elif call.fn == 'actuate_box' and call.diffs:
            ctx.hit('event.box_opened')
            ctx.nontrivial(('box', call.pre_enc))
    return on_call


def door_flags(ctx):
    """door status determines the blocking / vision flags"""
    for st in Door.Status:
        d = Door(st, Color.RED)
        ctx.hit('flags.door')
        want = st is not Door.Status.OPEN
        if d.blocks_movement is not want or d.blocks_vision is not want:
            ctx.violation('door', 'door.flags', f'Door({st.name}): blocks_movement={d.blocks_movement} '
                          f'blocks_vision={d.blocks_vision}, expected {want}', 'flags', {'status': st.name})


def transition_rule(ctx, label, payload_fn):
    """offline checker of one environment transition (state, action, next_state)"""
    def check(state, action, nxt, reward=None, done=None):
        ctx.hit('graph.transitions' if label == 'graph' else 'history.steps')
        h, w = state.grid.shape.height, state.grid.shape.width
        fy, fx = gen.front_of(state)
        held = state.agent.grid_object
        for y in range(h):
            for x in range(w):
                a, b = state.grid[y, x], nxt.grid[y, x]
                if isinstance(a, Door):
                    if not isinstance(b, Door) or b.color is not a.color:
                        ctx.violation('door', f'{label}.door_replaced', f'{label}: door at ({y},{x}) became {enc.eo(b)} after {action.name}',
                                      label, payload_fn(state, action))
                        continue
                    if a.state is not b.state:
                        legal = (action is Action.ACTUATE and (y, x) == (fy, fx) and b.state is Door.Status.OPEN and
                                 (a.state is Door.Status.CLOSED or (isinstance(held, Key) and held.color is a.color)))
                        if not legal:
                            ctx.violation('door', f'{label}.door_status',
                                          f'{label}: door at ({y},{x}) {a.state.name}->{b.state.name} after {action.name}; '
                                          f'agent {enc.ea(state.agent)}', label, payload_fn(state, action))
                        else:
                            ctx.hit(label + '.door_opened')
                    elif action is Action.ACTUATE and (y, x) == (fy, fx) and a.state is not Door.Status.OPEN:
                        should = a.state is Door.Status.CLOSED or (isinstance(held, Key) and held.color is a.color)
                        if should:
                            ctx.violation('door', f'{label}.door_not_opened',
                                          f'{label}: faced ACTUATE did not open {enc.eo(a)} holding {enc.eo(held)}', label,
                                          payload_fn(state, action))
                elif isinstance(b, Door) and not (action is Action.PICK_N_DROP and (y, x) == (fy, fx)):
                    ctx.violation('door', f'{label}.door_appeared', f'{label}: a door appeared at ({y},{x}) after {action.name}',
                                  label, payload_fn(state, action))
        if action is Action.ACTUATE and enc.eo(held) != enc.eo(nxt.agent.grid_object):
            ctx.violation('key', f'{label}.key_consumed', f'{label}: ACTUATE changed the held item {enc.eo(held)} -> '
                          f'{enc.eo(nxt.agent.grid_object)}', label, payload_fn(state, action))
        # agent beyond the dividing wall implies the door is open (key-door layouts)
        doors = [(y, x, nxt.grid[y, x]) for y in range(h) for x in range(w) if isinstance(nxt.grid[y, x], Door)]
        if len(doors) == 1:
            dy, dx, d = doors[0]
            col_is_wall = all(isinstance(nxt.grid[y, dx], (Wall, Door)) for y in range(h))
            if col_is_wall and nxt.agent.position.x > dx and d.state is not Door.Status.OPEN:
                ctx.violation('door', f'{label}.beyond_wall_door_not_open',
                              f'{label}: agent at {nxt.agent.position.yx} beyond the wall column {dx} but door is {d.state.name}',
                              label, payload_fn(state, action))
    return check


def keydoor_graphs(ctx, sink):
    """complete reachable state graph of 5x5 key-door layouts with the real step function"""
    data = dict((n, d) for n, _, d in compose.shipped_configs())['gv_keydoor.5x5']
    env = compose.factory_env(data)
    # one layout per door row: find seeds producing each
    layouts = {}
    for seed in range(200):
        env.set_seed(seed)
        s = env.functional_reset()
        door = [(y, x) for y in range(5) for x in range(5) if isinstance(s.grid[y, x], Door)][0]
        layouts.setdefault((5,) + door, (seed, s, env))
        if len(layouts) == 3:
            break
    if ctx.thorough:
        env7 = compose.factory_env(dict((n, d) for n, _, d in compose.shipped_configs())['gv_keydoor.7x7'])
        for seed in range(40):
            env7.set_seed(seed)
            s = env7.functional_reset()
            door = [(y, x) for y in range(7) for x in range(7) if isinstance(s.grid[y, x], Door)][0]
            layouts.setdefault((7,) + door, (seed, s, env7))
    for i, (door, (seed, start, env)) in enumerate(sorted(layouts.items())):
        if not ctx.mine(i):
            continue
        states = [0]

        def payload_fn(state, action, seed=seed, door=door):
            return {'state': enc.state_to_json(state), 'action': action.name, 'config': 'gv_keydoor.5x5' if door[0] == 5 else 'gv_keydoor.7x7'}

        check = transition_rule(ctx, 'graph', payload_fn)

        def on_transition(s, a, ns, r, d):
            ctx.ev()
            check(s, a, ns, r, d)
            ctx.nontrivial(('graph', enc.es(s), a.name))

        def on_state(s):
            states[0] += 1

        # terminal states are not expanded by bfs; exploration is complete otherwise
        raised = []

        def on_error(s, a, e):
            raised.append(describe_exc(e))

        status, _, stats = search.bfs(env, start, lambda *a: False, max_nodes=200000, on_state=on_state,
                                      on_transition=on_transition, on_error=on_error)
        if raised:
            # totality of the step function is C01's subject; here it only means part of the graph could not be explored
            ctx.add('graph_transitions_that_raised', len(raised))
            ctx.inconc(f'key-door graph (door {door}): the real step raised on {len(raised)} reachable transitions, e.g. {raised[0]}')
        ctx.add('graph_states', states[0])
        ctx.add('graph_transitions', stats['transitions'])
        ctx.addset('graphs', {'door': list(door), 'seed': seed, 'status': status, 'states': states[0],
                              'transitions': stats['transitions']})
        if status != 'exhausted':
            ctx.inconc(f'key-door graph for door {door} not exhausted: {status}')
            ctx.extra['exhaustive'] = False


def histories(ctx, sink, seeds, steps):
    job = 0
    for name, path, data in compose.shipped_configs():
        if 'keydoor' not in name:
            continue
        for s in range(seeds):
            job += 1
            if not ctx.mine(job):
                continue
            if ctx.out_of_time(0.9):
                ctx.add('histories_skipped_for_time')
                continue
            env = compose.factory_env(data)
            seed = ctx.seed * 1000 + s
            env.set_seed(seed)
            ok, state = call_real(env.functional_reset)
            if not ok:
                continue
            if '9x9' in name or ('7x7' in name and not ctx.thorough):
                pol = workloads.policy_interactive
            else:
                pol = workloads.GoalMixPolicy(sink=sink, max_nodes=2500, ctx=ctx)
            prng = gen.rng_for('C10hist', name, seed)
            trace = []

            def payload_fn(state, action, name=name, seed=seed):
                return {'state': enc.state_to_json(state), 'action': action.name, 'config': name}

            check = transition_rule(ctx, 'history', payload_fn)

            def per_step(state, action, nxt, reward, done, t):
                if state is not None:
                    check(state, action, nxt)
            dyndrive.drive_env(ctx, env, state, steps, pol, prng, per_step)
            ctx.addset('configs', name)


def run(ctx):
    from .. import custom_objects
    custom_objects.enable(cleats=True)  # user-defined object types join the generators' pool (flags, not types, must decide)
    sink = dynmon.Sink(ctx, ASPECTS)
    sink.on_call = count_events(ctx)
    ctx.extra['exhaustive'] = True
    with Patch() as patch, reach(ctx, [transition_fs.actuate_door, transition_fs.actuate_box]):
        dynmon.install(patch, sink)
        if ctx.shard == 0:
            door_flags(ctx)
        product(ctx)
        for state, cat, rng in dyndrive.random_function_sweep(
                ctx, 'C10sweep', ctx.pick(240, 4000),
                types=[Floor, Wall, Door, Key, Box, Exit, MovingObstacle, Telepod, MovingObstacle]):
            pass
        ctx.sample('sweep_state', {'state': enc.render(state), 'category': cat})
        stateful_path(ctx, ctx.pick(150, 2500))
        constructed_worlds(ctx, ctx.pick(120, 2000))
        branching(ctx, ctx.pick(200, 3000))
        keydoor_graphs(ctx, sink)
        histories(ctx, sink, ctx.pick(2, 30), ctx.pick(150, 600))


def replay(ctx, kind, payload):
    from .. import custom_objects
    custom_objects.enable(cleats=True)
    if kind == 'fn_case':
        dynmon.replay_call(ctx, payload, ASPECTS)
    elif kind == 'flags':
        door_flags(ctx)
    elif kind == 'stateful_case':
        ctx.seed, ctx.shard = payload['k'][0], payload['k'][1]
        stateful_path(ctx, payload['k'][2] + 1)
    elif kind == 'branching_case':
        ctx.seed, ctx.shard = payload['k'][0], payload['k'][1]
        branching(ctx, payload['k'][2] + 1)
    elif kind == 'constructed_case':
        ctx.seed, ctx.shard = payload['k'][0], payload['k'][1]
        constructed_worlds(ctx, payload['k'][2] + 1)
    elif kind in ('graph', 'history'):
        sink = dynmon.Sink(ctx, ASPECTS)
        with Patch() as patch:
            dynmon.install(patch, sink)
            data = dict((n, d) for n, _, d in compose.shipped_configs())[payload['config']]
            env = compose.factory_env(data)
            env.set_seed(0)
            state = enc.state_from_json(payload['state'])
            action = Action[payload['action']]
            ok, res = call_real(env.functional_step, state, action)
            ctx.ev()
            if ok:
                transition_rule(ctx, kind, lambda s, a: payload)(state, action, res[0])
