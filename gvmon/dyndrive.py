"""Drivers shared by the dynamics properties (C08-C11): they only *produce*
executions; the deciding monitors are the wrappers of dynmon.install."""
from . import boot  # noqa: F401
import numpy as np

from gym_gridverse.action import Action
from gym_gridverse.agent import Agent
from gym_gridverse.envs import transition_functions as transition_fs
from gym_gridverse.geometry import Orientation, Position
from gym_gridverse.grid import Grid
from gym_gridverse.grid_object import (
    Beacon,
    Box,
    Color,
    Door,
    Exit,
    Floor,
    Key,
    MovingObstacle,
    NoneGridObject,
    Telepod,
    Wall,
)
from gym_gridverse.state import State

from . import compose, enc, gen, workloads
from .monitor import call_real

REG = transition_fs.transition_function_registry


def target_kinds():
    """every kind of target cell: each registered type and status"""
    return [
        ('Floor', lambda: Floor()),
        ('Wall', lambda: Wall()),
        ('Exit', lambda: Exit()),
        ('Door.OPEN', lambda: Door(Door.Status.OPEN, Color.RED)),
        ('Door.CLOSED', lambda: Door(Door.Status.CLOSED, Color.RED)),
        ('Door.LOCKED', lambda: Door(Door.Status.LOCKED, Color.RED)),
        ('Key', lambda: Key(Color.RED)),
        ('MovingObstacle', lambda: MovingObstacle()),
        ('Box', lambda: Box(Key(Color.BLUE))),
        ('Box.Floor', lambda: Box(Floor())),
        ('Box.Box', lambda: Box(Box(Key(Color.RED)))),
        ('Box.Box.Box', lambda: Box(Box(Box(Exit())))),
        ('Box.Door', lambda: Box(Door(Door.Status.LOCKED, Color.BLUE))),
        ('Box.MovingObstacle', lambda: Box(MovingObstacle())),
        ('Telepod', lambda: Telepod(Color.GREEN)),
        ('Beacon', lambda: Beacon(Color.YELLOW)),
    ]


def floor_state(h, w, y, x, heading, held=None):
    return State(Grid([[Floor() for _ in range(w)] for _ in range(h)]), Agent(Position(y, x), heading, held))


def apply_fn(ctx, name, state, action, rng=None):
    """call the (wrapped) registry function in place on `state`"""
    ctx.ev()
    return call_real(REG[name], state, action, rng=rng if rng is not None else np.random.default_rng(0))


def copy_state(state):
    return enc.state_from_json(enc.state_to_json(state))


def random_function_sweep(ctx, tag, n_states, functions=None, hmax=6, wmax=6, types=None, chains=True):
    """random member states (forced edge categories) x every function alone x
    every action, plus random chains through GridWorld.functional_step"""
    functions = functions or list(workloads.TRANSITIONS)
    cats = gen.POSE_CATEGORIES
    for k in range(n_states):
        if ctx.out_of_time(0.8):
            ctx.add('sweep_states_skipped_for_time')
            break
        rng = gen.rng_for(tag, ctx.seed, ctx.shard, k)
        ts = types or gen.subsets_sample(rng, gen.GRID_TYPES, must_include=(Floor,), p=0.7)
        colors = gen.subsets_sample(rng, gen.COLORS, must_include=(Color.NONE,), p=0.5)
        state, cat = gen.rand_state(rng, ts, colors, category=cats[k % len(cats)], hmax=hmax, wmax=wmax)
        ctx.cat('sweep.pose.' + cat)
        nprng = np.random.default_rng(rng.randrange(2**32))
        for name in functions:
            for action in Action:
                s = copy_state(state)
                apply_fn(ctx, name, s, action, nprng)
        if chains:
            names = rng.sample(workloads.TRANSITIONS, rng.randint(2, 7))
            chain = compose.build('transition', {'name': 'chain', 'transition_functions': [{'name': n} for n in names]})
            for action in Action:
                s = copy_state(state)
                ctx.ev()
                call_real(chain, s, action, rng=nprng)
        yield state, cat, rng


def valid_initial(state):
    p = state.agent.position
    return gen.in_grid(state, p.y, p.x) and not state.grid[p.y, p.x].blocks_movement


def drive_env(ctx, env, state, steps, policy, prng, per_step=None, reset_on_done=True):
    """drive an environment functionally from `state`; per_step(state, action,
    next_state, reward, done, t) is the caller's own history checker"""
    for t in range(steps):
        action = policy(prng, env, state)
        ctx.ev()
        ok, res = call_real(env.functional_step, state, action)
        if not ok:
            return state, ('raised', res, action, t)
        nxt, reward, done = res
        if per_step is not None:
            per_step(state, action, nxt, reward, done, t)
        state = nxt
        if done and reset_on_done:
            ok, state = call_real(env.functional_reset)
            if not ok:
                return None, ('reset_raised', state, None, t)
            if per_step is not None:
                per_step(None, None, state, 0.0, False, t)
    return state, None


def shipped_histories(ctx, tag, name_filter, seeds, steps, per_step_factory=None, policies=None):
    """histories of shipped configs built by the repository's factory *after*
    the monitors were installed"""
    policies = policies or list(workloads.POLICIES)
    job = 0
    for name, path, data in compose.shipped_configs():
        if name_filter and not any(f in name for f in name_filter):
            continue
        for s in range(seeds):
            for pol in policies:
                job += 1
                if not ctx.mine(job):
                    continue
                if ctx.out_of_time(0.95):
                    ctx.add('histories_skipped_for_time')
                    continue
                env = compose.factory_env(data)
                seed = ctx.seed * 1000 + s
                env.set_seed(seed)
                ok, state = call_real(env.functional_reset)
                if not ok:
                    continue
                prng = gen.rng_for(tag, name, seed, pol)
                per_step = per_step_factory(name, seed, pol) if per_step_factory else None
                if per_step is not None:
                    per_step(None, None, state, 0.0, False, -1)
                drive_env(ctx, env, state, steps, workloads.POLICIES[pol], prng, per_step)
                ctx.addset('configs', name)
                ctx.add('histories')
