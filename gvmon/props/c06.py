"""C06 — hidden cells carry no information; occlusion is monotone.
See DESIGN.md §2 C06."""
from .. import boot  # noqa: F401
import numpy as np

from gym_gridverse.agent import Agent
from gym_gridverse.envs import observation_functions as observation_fs
from gym_gridverse.envs import visibility_functions as visibility_fs
from gym_gridverse.geometry import Area, Orientation, Position
from gym_gridverse.grid import Grid
from gym_gridverse.grid_object import Color, Door, Floor, Hidden, Key, Wall
from gym_gridverse.state import State
from gym_gridverse.utils import raytracing as raytracing_mod

from .. import enc, gen, obsgen, refmodel
from ..monitor import call_real, describe_exc, reach

ID = 'C06'
LEVEL = 'exploration'
DEBUG_TOGGLE = True  # runner flips the library debug flag every 97 monitored executions
TECHNIQUE = 'runtime monitoring: relational monitors over pairs of executions (replace one hidden / out-of-view world cell, make one visible opaque cell transparent) plus a chain-of-visibility BFS on each observation; all opacity patterns of small views enumerated; stochastic view bounded by the deterministic one'
LEVEL_TEXT = ('For partially_occluded and raytracing: every world cell reported Hidden or lying outside the view is replaced in '
              'turn (opaque and transparent replacements forced) and the observation must not change; the agent\'s cell is '
              'visible; every visible cell is 8-adjacent to a visible transparent cell linked back to the agent; replacing a '
              'visible opaque cell by floor never hides a visible cell. All 2^(n-1) opacity patterns of the 3x3 and 4x3 views '
              '(quick; 3x5 too in thorough) with all single-cell flips are enumerated. The stochastic view must show only '
              'cells the deterministic ray-traced view shows, and always the cells every ray reaches lit (lit counts '
              'recomputed by the harness over the repository\'s ray fan).'
              ' Also: door-status pairs observed consecutively, wall fields of density 0.3-0.5 under 7x7 / 5x9 views with every hidden cell replaced, the stochastic view under generators returning the largest / smallest positive uniform draw.')
LEVEL_NOTE = ('Trusted: refmodel.view_to_world (decided by C05) to relate world and view cells; the ray fan itself is the '
              'subject of C19. Only the built-in raytracing threshold (1, absolute counts) is claimed. rng.random()==0.0 ignored.')
SHARDS = {'quick': 4, 'thorough': 16}
BUDGET_S = {'quick': 300, 'thorough': 2400}
RULE = ('case = (state, area, function) with its perturbed twins. non-trivial = at least one in-grid cell of the view is '
        'hidden by occlusion; distinct by (function, area, deep state encoding) resp. opacity pattern.')
ASSUMPTIONS = ['visibility read off the observation: a view cell is visible iff it is not Hidden']
EXHAUSTIVE_NOTE = 'all opacity patterns (agent cell transparent) of 3x3 and 4x3 views with every single-cell flip, x 2 functions (thorough: 3x5 too)'
REQUIRED = {'quick': {'ni.pairs': 20000, 'chain.checked': 5000, 'monotone.pairs': 3000, 'patterns': 2000,
                      'stochastic.checked': 1000, 'walled_worlds.states': 40, 'stochastic.extreme_outcomes': 100, 'stochastic.hidden_by_chance': 50, 'agent_cell.checked': 5000,
                      'ni.outside_view': 500, 'ni.hidden_in_view': 5000, 'history_states.compared': 200, 'views.large': 4, 'door_pairs.observations': 500}}
OCCLUDING = ['partially_occluded', 'raytracing']
N8 = [(-1, -1), (-1, 0), (-1, 1), (0, -1), (0, 1), (1, -1), (1, 0), (1, 1)]


def visible_mask(obs):
    return [[type(c) is not Hidden for c in row] for row in obs.grid.objects]


def chain_ok(obs):
    """every visible cell is the agent's cell or 8-adjacent to a visible
    transparent cell that is itself linked to the agent"""
    rows = obs.grid.objects
    H, W = len(rows), len(rows[0])
    ay, ax = obs.agent.position.y, obs.agent.position.x
    vis = visible_mask(obs)
    if not vis[ay][ax]:
        return False, ('agent_hidden', (ay, ax))
    linked = {(ay, ax)}
    stack = [(ay, ax)]
    while stack:
        y, x = stack.pop()
        if rows[y][x].blocks_vision:
            continue  # opaque cells are seen but pass nothing on
        for dy, dx in N8:
            ny, nx = y + dy, x + dx
            if 0 <= ny < H and 0 <= nx < W and vis[ny][nx] and (ny, nx) not in linked:
                linked.add((ny, nx))
                stack.append((ny, nx))
    for y in range(H):
        for x in range(W):
            if vis[y][x] and (y, x) not in linked:
                return False, ('unlinked', (y, x))
    return True, None


def world_cells(state, area):
    """map world cell -> view cell (or None when outside the view)"""
    gh, gw = len(state.grid.objects), len(state.grid.objects[0])
    m = {}
    for i in range(area.height):
        for j in range(area.width):
            wy, wx = refmodel.view_to_world(state.agent.position.y, state.agent.position.x, state.agent.orientation,
                                            area.ys, area.xs, i, j)
            if 0 <= wy < gh and 0 <= wx < gw:
                m[(wy, wx)] = (i, j)
    return m


def with_cell(state, y, x, obj):
    rows = [list(r) for r in state.grid.objects]
    rows[y][x] = obj
    return State(Grid(rows), state.agent)


def analyse(ctx, state, area, name, fn, max_flips, rng, label=''):
    def payload(extra=None):
        p = {'state': enc.state_to_json(state), 'area': obsgen.area_json(area), 'fn': name}
        if extra:
            p.update(extra)
        return p
    pre = enc.es(state)
    ok, obs = call_real(fn, state, rng=None)
    ctx.ev()
    if not ok:
        ctx.violation('occlusion', 'obs.raises', f'{name} raised {describe_exc(obs)}', 'occ_case', payload())
        return None
    if enc.es(state) != pre:
        ctx.violation('occlusion', f'{name}.mutates_state', f'{label}{name} area {obsgen.area_json(area)}: observing modified the state '
                      f'(hidden cells written into the world)', 'occ_case', payload())
        return None
    e0 = enc.es(obs)
    # agent's own cell + chain
    ctx.hit('agent_cell.checked')
    ctx.hit('chain.checked')
    good, why = chain_ok(obs)
    if not good:
        key = 'agent_cell_hidden' if why[0] == 'agent_hidden' else 'chain_broken'
        ctx.violation('occlusion', f'{name}.{key}', f'{label}{name} area {obsgen.area_json(area)}: {why[0]} at view cell {why[1]}',
                      'occ_case', payload())
    vis = visible_mask(obs)
    wmap = world_cells(state, area)
    gh, gw = len(state.grid.objects), len(state.grid.objects[0])
    hidden_cells = [(wy, wx) for (wy, wx), (i, j) in wmap.items() if not vis[i][j]]
    outside_cells = [(y, x) for y in range(gh) for x in range(gw) if (y, x) not in wmap]
    if hidden_cells:
        ctx.nontrivial((name, obsgen.area_json(area), enc.es(state)))
    # non-interference: replace each hidden / out-of-view world cell
    targets = [(c, 'hidden_in_view') for c in hidden_cells] + [(c, 'outside_view') for c in outside_cells]
    if max_flips and len(targets) > max_flips:
        targets = rng.sample(targets, max_flips)
    for (wy, wx), kind in targets:
        cur = state.grid.objects[wy][wx]
        repls = [Wall() if not cur.blocks_vision else Floor(), gen.rand_obj(rng)]
        for r in repls:
            if enc.eo(r) == enc.eo(cur):
                continue
            ok, obs2 = call_real(fn, with_cell(state, wy, wx, r), rng=None)
            ctx.ev()
            ctx.hit('ni.pairs')
            ctx.hit('ni.' + kind)
            if not ok:
                ctx.violation('occlusion', 'obs.raises', f'{name} raised {describe_exc(obs2)}', 'occ_case', payload())
                continue
            if enc.es(obs2) != e0:
                ctx.violation('occlusion', f'{name}.interference.{kind}',
                              f'{label}{name} area {obsgen.area_json(area)} agent {enc.ea(state.agent)[:3]}: replacing the {kind} world '
                              f'cell ({wy},{wx}) {enc.eo(cur)} by {enc.eo(r)} changed the observation', 'occ_case',
                              payload({'flip': [wy, wx], 'replacement': enc.obj_to_json(r)}))
    # monotonicity: make each visible opaque cell transparent
    opaque_visible = [(wy, wx) for (wy, wx), (i, j) in wmap.items() if vis[i][j] and state.grid.objects[wy][wx].blocks_vision]
    if max_flips and len(opaque_visible) > max_flips:
        opaque_visible = rng.sample(opaque_visible, max_flips)
    for (wy, wx) in opaque_visible:
        ok, obs2 = call_real(fn, with_cell(state, wy, wx, Floor()), rng=None)
        ctx.ev()
        ctx.hit('monotone.pairs')
        if not ok:
            continue
        vis2 = visible_mask(obs2)
        lost = [(i, j) for i in range(len(vis)) for j in range(len(vis[0])) if vis[i][j] and not vis2[i][j]]
        if lost:
            ctx.violation('occlusion', f'{name}.not_monotone',
                          f'{label}{name} area {obsgen.area_json(area)}: making the visible opaque world cell ({wy},{wx}) transparent '
                          f'hid view cells {lost[:4]}', 'occ_case', payload({'flip': [wy, wx], 'replacement': {'t': 'Floor'}}))
    return obs


def pattern_state(h, w, bits, k_rot):
    """the view equals the whole grid: agent at the bottom-centre facing forward"""
    ax = w // 2
    rows, b = [], 0
    for y in range(h):
        row = []
        for x in range(w):
            if (y, x) == (h - 1, ax):
                row.append(Floor())
            else:
                row.append(Wall() if (bits >> b) & 1 else Floor())
                b += 1
        rows.append(row)
    s = State(Grid(rows), Agent(Position(h - 1, ax), Orientation.F))
    for _ in range(k_rot):
        s = obsgen.rotate_state_cw(s)
    return s, Area((-(h - 1), 0), (-ax, w - 1 - ax))


def patterns(ctx, shapes, fns):
    idx = 0
    for (h, w, sample) in shapes:
        n = h * w - 1
        total = 1 << n
        pats = range(total) if not sample else sorted({ctx.rng.randrange(total) for _ in range(sample)} | {0, total - 1})
        for bits in pats:
            idx += 1
            if not ctx.mine(idx):
                continue
            if ctx.out_of_time(0.7):
                ctx.add('patterns_skipped_for_time')
                ctx.extra['exhaustive'] = False
                return
            state, area = pattern_state(h, w, bits, idx % 4)
            ctx.hit('patterns')
            for name in OCCLUDING:
                analyse(ctx, state, area, name, fns[(name, area)], 0, ctx.rng, label=f'pattern {h}x{w}:{bits:b} ')
            if idx % 499 == 0:
                ctx.sample('pattern', {'view': [h, w], 'opaque_bits': format(bits, 'b'), 'state': enc.render(state)})


class FnCache(dict):
    def __missing__(self, key):
        name, area = key
        self[key] = obsgen.build_obs(name, area)
        return self[key]


def lit_counts(view_grid, position):
    """harness' own light propagation over the repository's ray fan"""
    rays = raytracing_mod.cached_compute_rays_fancy(position, view_grid.area)
    H, W = view_grid.shape.height, view_grid.shape.width
    num = [[0] * W for _ in range(H)]
    den = [[0] * W for _ in range(H)]
    for ray in rays:
        lit = True
        for p in ray:
            den[p.y][p.x] += 1
            if lit:
                num[p.y][p.x] += 1
            if view_grid.objects[p.y][p.x].blocks_vision:
                lit = False
    return num, den


class ExtremeRng:
    """a generator whose uniform draws all take one value of [0, 1): the largest (just below 1) or the smallest positive one -
    outcomes a seeded run practically never produces, but legal ones"""

    def __init__(self, value):
        self.value = value

    def random(self, size=None, *a, **k):
        return self.value if size is None else np.full(size, self.value)


def stochastic(ctx, state, area, fns, seeds, rng):
    det = fns[('raytracing', area)]
    sto = fns[('stochastic_raytracing', area)]
    full = fns[('fully_transparent', area)]
    ok, obs_det = call_real(det, state, rng=None)
    ok2, obs_full = call_real(full, state, rng=None)
    if not ok or not ok2:
        return
    vis_det = visible_mask(obs_det)
    num, den = lit_counts(obs_full.grid, obs_full.agent.position)
    gh = len(vis_det)
    gw = len(vis_det[0])
    inside = [[type(obs_full.grid.objects[i][j]) is not Hidden for j in range(gw)] for i in range(gh)]
    for s in range(seeds + 2):
        seed = rng.randrange(2**32) if s < seeds else ['largest_draw', 'smallest_positive_draw'][s - seeds]
        g = np.random.default_rng(seed) if s < seeds else ExtremeRng([float(np.nextafter(1.0, 0.0)), float(np.nextafter(0.0, 1.0))][s - seeds])
        ok, obs = call_real(sto, state, rng=g)
        ctx.ev()
        ctx.hit('stochastic.checked')
        if s >= seeds:
            ctx.hit('stochastic.extreme_outcomes')
        payload = {'state': enc.state_to_json(state), 'area': obsgen.area_json(area), 'fn': 'stochastic_raytracing', 'seed': seed}
        if not ok:
            ctx.violation('occlusion', 'obs.raises', f'stochastic_raytracing raised {describe_exc(obs)}', 'sto_case', payload)
            continue
        vis = visible_mask(obs)
        for i in range(gh):
            for j in range(gw):
                if vis[i][j] and not vis_det[i][j]:
                    ctx.violation('occlusion', 'stochastic.shows_more_than_deterministic',
                                  f'stochastic view (seed {seed}) shows view cell ({i},{j}) that ray tracing hides', 'sto_case', payload)
                if inside[i][j] and den[i][j] > 0 and num[i][j] == den[i][j] and not vis[i][j]:
                    ctx.violation('occlusion', 'stochastic.hides_fully_lit_cell',
                                  f'stochastic view (seed {seed}) hides view cell ({i},{j}) reached lit by all {den[i][j]} rays',
                                  'sto_case', payload)
                if inside[i][j] and vis_det[i][j] and not vis[i][j]:
                    ctx.hit('stochastic.hidden_by_chance')


def door_status_pairs(ctx, fns, n):
    """two worlds identical except for the status of one door, observed one right after the other (open first, then
    shut, then open again): each observation must satisfy the chain rule on its own, and shutting the door can only hide
    cells (monotonicity between the two) - whatever the library remembers from the previous observation"""
    for k in range(n):
        rng = gen.rng_for('C06doors', ctx.seed, ctx.shard, k)
        h, w = rng.randint(3, 7), rng.randint(3, 7)
        state, _ = gen.rand_state(rng, [Floor, Wall, Door], [Color.NONE, Color.RED], shape=(h, w), p_floor=0.7)
        state.agent.orientation = Orientation.F
        state.agent.position = Position(h - 1, rng.randrange(w))
        ay, ax = h - 1, state.agent.position.x
        state.grid[ay, ax] = Floor()
        dy = rng.randint(1, min(3, h - 1))
        door_cell = (ay - dy, min(w - 1, max(0, ax + rng.randint(-1, 1))))
        area = Area((-(h - 1), 0), (-ax, w - 1 - ax))
        variants = {}
        for st in (Door.Status.OPEN, Door.Status.CLOSED):
            v = obsgen.rebuilt(state)
            v.grid[door_cell[0], door_cell[1]] = Door(st, Color.RED)
            variants[st] = v
        for name in OCCLUDING:
            fn = fns[(name, area)]
            masks = []
            for st in (Door.Status.OPEN, Door.Status.CLOSED, Door.Status.OPEN):
                ok, obs = call_real(fn, variants[st], rng=None)
                ctx.ev()
                ctx.hit('door_pairs.observations')
                if not ok:
                    break
                good, why = chain_ok(obs)
                if not good:
                    ctx.violation('occlusion', f'{name}.chain_broken',
                                  f'{name}: world with the door at {door_cell} {st.name}, observed right after the same world with the '
                                  f'door in the other status: {why[0]} at view cell {why[1]}', 'occ_case',
                                  {'state': enc.state_to_json(variants[st]), 'area': obsgen.area_json(area), 'fn': name})
                    break
                masks.append(visible_mask(obs))
            if len(masks) == 3:
                lost = [(i, j) for i in range(len(masks[0])) for j in range(len(masks[0][0])) if masks[1][i][j] and not masks[0][i][j]]
                if lost or masks[0] != masks[2]:
                    ctx.violation('occlusion', f'{name}.not_monotone',
                                  f'{name}: opening the door at {door_cell} hides view cells {lost[:4]} / the open-door view changed '
                                  f'between two observations ({masks[0] != masks[2]})', 'occ_case',
                                  {'state': enc.state_to_json(variants[Door.Status.OPEN]), 'area': obsgen.area_json(area), 'fn': name})


def large_views(ctx, fns):
    """views with hundreds of rays through the agent's cell (15x15: 256, 7x31 / 31x7: 256, 17x17: 324)"""
    for i, (ys, xs) in enumerate(obsgen.LARGE_AREAS):
        if not ctx.mine(i):
            continue
        rng = gen.rng_for('C06large', ctx.seed, i)
        area = Area(ys, xs)
        for rep in range(2):
            state, _, cat = obsgen.rand_case(rng, hmax=9, wmax=9)
            for name in OCCLUDING:
                if obsgen.supported(name, area):
                    analyse(ctx, state, area, name, fns[(name, area)], 3, rng, label='large view: ')
            if obsgen.supported('raytracing', area):
                stochastic(ctx, state, area, fns, 4, rng)
            ctx.hit('views.large')


def walled_worlds(ctx, fns, n):
    """the shipped 7x7 view (and a 5x9 one) over worlds of walls and floor at densities around 0.3 - many partially lit
    corners and diagonal gaps -, every hidden cell of the view replaced in turn (not a sample of them)"""
    for k in range(n):
        if ctx.out_of_time(0.85):
            break
        rng = gen.rng_for('C06walls', ctx.seed, ctx.shard, k)
        h, w = rng.randint(7, 10), rng.randint(7, 10)
        state, _ = gen.rand_state(rng, [Floor, Wall], [Color.NONE], shape=(h, w), p_floor=rng.choice([0.0, 0.2, 0.4]))
        # rand_state draws Floor with probability p_floor first and otherwise uniformly from the two types: wall density 0.3-0.5
        area = Area((-6, 0), (-3, 3)) if k % 3 else Area((-4, 0), (-4, 4))
        if k % 2:
            state.agent.position = Position(h - 1, w // 2)
            state.agent.orientation = Orientation.F
        ctx.hit('walled_worlds.states')
        for name in OCCLUDING:
            if obsgen.supported(name, area):
                analyse(ctx, state, area, name, fns[(name, area)], 0, rng, label='walled world: ')


def run(ctx):
    from .. import custom_objects
    custom_objects.enable(curtain=True)  # user-defined object types join the generators' pool (flags, not types, must decide)
    fns = FnCache()
    ctx.extra['exhaustive'] = True
    with reach(ctx, [visibility_fs.partially_occluded, *[f for f in [getattr(visibility_fs, '_partially_occluded_make_visible', None)] if f is not None], visibility_fs.raytracing,
                     visibility_fs.stochastic_raytracing, observation_fs.from_visibility]):
        shapes = [(3, 3, 0), (4, 3, 0), (3, 5, 0 if ctx.thorough else 1200)]
        patterns(ctx, shapes, fns)
        large_views(ctx, fns)
        door_status_pairs(ctx, fns, ctx.pick(150, 2500))
        walled_worlds(ctx, fns, ctx.pick(60, 1500))
        for k in range(ctx.pick(250, 12000)):
            if ctx.out_of_time(0.9):
                ctx.add('random_cases_skipped_for_time')
                break
            rng = gen.rng_for('C06rand', ctx.seed, ctx.shard, k)
            dense_types = None
            if k % 3 == 2:
                # many objects whose opacity is not determined by (type, status, colour): curtains, doors of every status
                from ..custom_objects import Curtain
                dense_types = [Floor, Curtain, Curtain, Door, Wall]
                ctx.hit('dense_opacity_cases')
            state, area, cat = obsgen.rand_case(rng, hmax=8, wmax=8, maxext=4, types=dense_types)
            for name in OCCLUDING:
                if obsgen.supported(name, area):
                    analyse(ctx, state, area, name, fns[(name, area)], 10, rng)
            if k % 2 == 0:
                stochastic(ctx, state, area, fns, ctx.pick(6, 40), rng)
            if k == 0:
                ctx.sample('random', {'state': enc.render(state), 'area': obsgen.area_json(area)})
            # the same monitors on a state reached through the real dynamics (doors opened in place ...), plus:
            # its observation equals the one of a freshly built equal state (opacity is a function of the state's value)
            hstate = obsgen.history_state(gen.rng_for('C06hist', ctx.seed, ctx.shard, k))
            fresh = obsgen.rebuilt(hstate)
            for name in OCCLUDING:
                if obsgen.supported(name, area):
                    analyse(ctx, hstate, area, name, fns[(name, area)], 4, rng, label='history state: ')
                    ok1, o1 = call_real(fns[(name, area)], hstate, rng=None)
                    ok2, o2 = call_real(fns[(name, area)], fresh, rng=None)
                    ctx.hit('history_states.compared')
                    if ok1 and ok2 and enc.es(o1) != enc.es(o2):
                        ctx.violation('occlusion', f'{name}.differs_for_equal_states',
                                      f'{name} area {obsgen.area_json(area)}: a state reached through the dynamics (e.g. a door opened '
                                      f'in place) is occluded differently from a freshly built equal state', 'occ_case',
                                      {'state': enc.state_to_json(hstate), 'area': obsgen.area_json(area), 'fn': name,
                                       'hist_key': [ctx.seed, ctx.shard, k]})


def replay(ctx, kind, payload):
    from .. import custom_objects
    custom_objects.enable(curtain=True)
    fns = FnCache()
    state = enc.state_from_json(payload['state'])
    area = obsgen.area_from_json(payload['area'])
    rng = gen.rng_for('replay')
    if kind == 'sto_case':
        stochastic(ctx, state, area, fns, 1, gen.rng_for('x'))  # includes the two extreme-outcome generators
        if isinstance(payload['seed'], str):
            return
        sto = fns[('stochastic_raytracing', area)]
        det = fns[('raytracing', area)]
        ok, obs = call_real(sto, state, rng=np.random.default_rng(payload['seed']))
        ok2, obs_det = call_real(det, state, rng=None)
        if ok and ok2:
            v, vd = visible_mask(obs), visible_mask(obs_det)
            if any(v[i][j] and not vd[i][j] for i in range(len(v)) for j in range(len(v[0]))):
                ctx.violation('occlusion', 'stochastic.shows_more_than_deterministic', 'replay', kind, payload)
    else:
        if 'hist_key' in payload:  # regenerate the real history that produced the state
            state = obsgen.history_state(gen.rng_for('C06hist', *payload['hist_key']))
            fn = fns[(payload['fn'], area)]
            ok1, o1 = call_real(fn, state, rng=None)
            ok2, o2 = call_real(fn, obsgen.rebuilt(state), rng=None)
            if ok1 and ok2 and enc.es(o1) != enc.es(o2):
                ctx.violation('occlusion', f'{payload["fn"]}.differs_for_equal_states', 'history state occluded differently from its rebuilt copy',
                              kind, payload)
        analyse(ctx, state, area, payload['fn'], fns[(payload['fn'], area)], 0, rng)
