#!/bin/bash
# Offline set-up: nothing is compiled or fetched.  Verifies that the harness can
# import the repository's working tree with the vendored PyYAML.
HERE="$(cd "$(dirname "${BASH_SOURCE[0]}")/.." && pwd)"
cd "$HERE" || exit 1
mkdir -p evidence replays
export GV_REPO="${GV_REPO:-/repo}"
PYTHONPATH="$HERE:$HERE/vendor:$GV_REPO" PYTHONDONTWRITEBYTECODE=1 /venv/bin/python -W ignore -c "
from gvmon import boot, compose
import yaml, sys
assert yaml.__file__.startswith('$HERE/vendor/'), yaml.__file__
print('gvmon ready: repo', boot.REPO, 'python', sys.version.split()[0], 'configs', len(compose.config_paths()))
"
