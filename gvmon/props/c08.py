"""C08 — agent kinematics: moves and turns do exactly what the action says.
See DESIGN.md §2 C08."""
from .. import boot  # noqa: F401
import numpy as np

from gym_gridverse.action import Action
from gym_gridverse.envs import transition_functions as transition_fs
from gym_gridverse.envs import utils as envs_utils
from gym_gridverse.geometry import Orientation, Position
from gym_gridverse.grid_object import Floor, Telepod, Wall

from .. import compose, dyndrive, dynmon, enc, gen, refmodel, workloads
from ..monitor import Patch, call_real, reach

ID = 'C08'
LEVEL = 'exploration'
DEBUG_TOGGLE = True  # runner flips the library debug flag every 97 monitored executions
TECHNIQUE = 'runtime monitoring: hook on every built-in transition function comparing the post-call pose with a table-driven reference kinematics; exhaustive small-grid product each run; history invariant on shipped configs'
LEVEL_TEXT = ('Each call of move_agent/turn_agent (alone, inside random chains, and inside every environment built after the '
              'hooks are installed) is compared with an independent reference (heading tables, target inside grid and not '
              'blocking); every other transition function must leave the pose alone (teleport only from a telepod). The '
              'product position x heading x action x kind-of-target-cell is enumerated completely on 3x3 and 2x4 grids '
              'each run; histories of all shipped configs assert "agent inside the grid, never on a blocking cell".'
              ' Also: fields of 3-6 same-coloured telepods (a teleport ends on a telepod of the same colour), nested and variously filled boxes among the exhaustive front-cell kinds.')
LEVEL_NOTE = ('Trusted: refmodel.py tables; the blocking flag is read from the object itself (the statement is relative to '
              'it). Larger grids and histories are sampled, not enumerated.')
SHARDS = {'quick': 4, 'thorough': 16}
BUDGET_S = {'quick': 300, 'thorough': 2400}
RULE = ('case = (transition function or chain, state, action) observed at the transition-function hook. non-trivial = a '
        'move action whose target cell is outside the grid or is not plain Floor, or a turn; distinct by (function, deep '
        'state encoding, action). Exhaustive sub-space: every position x heading x 8 actions x 11 kinds of target cell '
        '(+ outside the grid on each side) on 3x3 and 2x4 grids.')
ASSUMPTIONS = ['reference kinematics of refmodel.py; object flags (blocks_movement) are read from the real objects']
EXHAUSTIVE_NOTE = 'position x heading x action x target-kind on 3x3 and 2x4 (thorough: also 1x1,1x3,3x1,4x4) grids'
REQUIRED = {'quick': {'fn.move_agent': 5000, 'fn.turn_agent': 2000, 'exhaustive.cases': 2000, 'turn.algebra': 100,
                      'history.steps': 3000, 'target.outside': 90, 'target.blocking': 200}}
ASPECTS = ('pose',)


def exhaustive(ctx, shapes):
    kinds = dyndrive.target_kinds()
    chain_names = ['move_agent', 'turn_agent', 'actuate_door', 'actuate_box', 'pickndrop']
    chain = compose.build('transition', {'name': 'chain', 'transition_functions': [{'name': n} for n in chain_names]})
    idx = 0
    for (h, w) in shapes:
        for y in range(h):
            for x in range(w):
                for heading in gen.ORIENTATIONS:
                    for action in Action:
                        idx += 1
                        if not ctx.mine(idx):
                            continue
                        variants = [('plain', None)]
                        if action.is_move():
                            dy, dx = refmodel.move_vector(heading, action)
                            ty, tx = y + dy, x + dx
                            if 0 <= ty < h and 0 <= tx < w:
                                variants = [(kn, (ty, tx, mk)) for kn, mk in kinds]
                                ctx.hit('target.inside', len(kinds))
                            else:
                                ctx.hit('target.outside')
                        for kn, spec in variants:
                            s = dyndrive.floor_state(h, w, y, x, heading)
                            if spec:
                                s.grid[spec[0], spec[1]] = spec[2]()
                                if s.grid[spec[0], spec[1]].blocks_movement:
                                    ctx.hit('target.blocking')
                            key = ((h, w), y, x, heading.name, action.name, kn)
                            if action.is_move() and kn != 'Floor' or action.is_turn():
                                ctx.nontrivial(key)
                            ctx.hit('exhaustive.cases')
                            ctx.cat(f'exhaustive.{action.name}.{kn if action.is_move() else "-"}')
                            for name in ('move_agent', 'turn_agent'):
                                dyndrive.apply_fn(ctx, name, dyndrive.copy_state(s), action)
                            ctx.ev()
                            call_real(chain, dyndrive.copy_state(s), action, rng=np.random.default_rng(0))
                            if idx % 97 == 0:
                                ctx.sample('exhaustive', {'shape': [h, w], 'agent': [y, x, heading.name],
                                                          'action': action.name, 'target': kn})


def turn_algebra(ctx, n):
    """left then right restores the heading, four equal turns restore it, turns never displace"""
    turn = dyndrive.REG['turn_agent']
    for k in range(n):
        rng = gen.rng_for('C08turn', ctx.seed, ctx.shard, k)
        state, _ = gen.rand_state(rng, gen.GRID_TYPES, gen.COLORS, hmax=5, wmax=5)
        start = enc.es(state)
        for seq, name in (((Action.TURN_LEFT, Action.TURN_RIGHT), 'LR'), ((Action.TURN_RIGHT, Action.TURN_LEFT), 'RL'),
                          ((Action.TURN_LEFT,) * 4, 'LLLL'), ((Action.TURN_RIGHT,) * 4, 'RRRR')):
            s = dyndrive.copy_state(state)
            for a in seq:
                ctx.ev()
                call_real(turn, s, a, rng=None)
            ctx.hit('turn.algebra')
            if enc.es(s) != start:
                ctx.violation('pose', 'turn_agent.algebra', f'turn sequence {name} does not restore the state: '
                              f'{enc.ea(state.agent)} -> {enc.ea(s.agent)}', 'turn_seq',
                              {'state': enc.state_to_json(state), 'seq': [a.name for a in seq]})
        # two lefts == two rights == about-face
        s1, s2 = dyndrive.copy_state(state), dyndrive.copy_state(state)
        for _ in range(2):
            call_real(turn, s1, Action.TURN_LEFT, rng=None)
            call_real(turn, s2, Action.TURN_RIGHT, rng=None)
        if enc.es(s1) != enc.es(s2) or enc.es(s1) == start:
            ctx.violation('pose', 'turn_agent.algebra', 'LL and RR disagree or are the identity', 'turn_seq',
                          {'state': enc.state_to_json(state), 'seq': ['TURN_LEFT', 'TURN_LEFT']})


def history_invariant(ctx, label):
    def factory(name, seed, pol):
        def per_step(state, action, nxt, reward, done, t):
            ctx.hit('history.steps')
            p = nxt.agent.position
            if not gen.in_grid(nxt, p.y, p.x):
                ctx.violation('pose', 'history.outside', f'{name} seed={seed} t={t}: agent outside the grid at ({p.y},{p.x})',
                              'history', {'config': name, 'seed': seed, 'policy': pol, 't': t})
            elif nxt.grid[p.y, p.x].blocks_movement:
                ctx.violation('pose', 'history.on_blocking_cell',
                              f'{name} seed={seed} t={t}: agent on blocking cell {enc.eo(nxt.grid[p.y, p.x])}',
                              'history', {'config': name, 'seed': seed, 'policy': pol, 't': t})
            if state is not None and action is not None and not action.is_move() and not action.is_turn():
                teleporting = any(isinstance(o, Telepod) for row in state.grid.objects for o in row)
                if not teleporting and enc.ea(state.agent)[:3] != enc.ea(nxt.agent)[:3]:
                    ctx.violation('pose', 'history.pose_changed_by_other_action',
                                  f'{name} t={t}: {action.name} changed the pose', 'history',
                                  {'config': name, 'seed': seed, 'policy': pol, 't': t})
        return per_step
    return factory


def composition_histories(ctx, n, steps):
    """random compositions driven from valid initial states"""
    for k in range(n):
        if not ctx.mine(k):
            continue
        rng = gen.rng_for('C08comp', ctx.seed, k)
        comp = workloads.Composition(rng, force_all_actions=True)
        holder = {}
        env = comp.build(lambda rng=None: holder['s'])
        env.set_seed(k)
        for j in range(4):
            state, _ = comp.member_state(rng)
            if state is None:
                continue
            if not dyndrive.valid_initial(state):
                free = [(y, x) for y in range(comp.shape[0]) for x in range(comp.shape[1])
                        if not state.grid[y, x].blocks_movement]
                if not free:
                    continue
                y, x = rng.choice(free)
                state.agent.position = Position(y, x)
            holder['s'] = state
            per_step = history_invariant(ctx, 'composition')(f'composition {comp.id}', k, 'random')
            dyndrive.drive_env(ctx, env, state, steps, workloads.policy_edge_seeking, rng, per_step, reset_on_done=False)
            ctx.add('composition_histories')


def anchored():
    return [transition_fs.move_agent, transition_fs.turn_agent, envs_utils.get_next_position]


def telepod_fields(ctx, n):
    """the only displacement that is not a move: an agent on a telepod with two to five same-coloured partners scattered over
    the grid (and telepods of other colours, walls, doors, keys elsewhere), every action, many random outcomes each"""
    from gym_gridverse.grid_object import Telepod, Wall, Door, Key, Color
    for k in range(n):
        rng = gen.rng_for('C08pods', ctx.seed, ctx.shard, k)
        h, w = rng.randint(2, 6), rng.randint(2, 6)
        state, _ = gen.rand_state(rng, [Floor, Wall, Door, Key, Telepod], gen.COLORS, shape=(h, w), p_floor=0.5)
        colour = rng.choice(gen.COLORS)
        cells = [(y, x) for y in range(h) for x in range(w)]
        rng.shuffle(cells)
        pods = cells[: min(len(cells), rng.randint(3, 6))]
        for (y, x) in pods:
            state.grid[y, x] = Telepod(colour)
        ay, ax = pods[0]
        state.agent.position = Position(ay, ax)
        ctx.hit('telepod_fields.states')
        for action in Action:
            for rep in range(4):
                dyndrive.apply_fn(ctx, 'teleport', dyndrive.copy_state(state), action, np.random.default_rng(rng.randrange(2**32)))
            ctx.nontrivial(('pods', enc.es(state), action.name))


def run(ctx):
    from .. import custom_objects
    custom_objects.enable(cleats=True)  # user-defined object types join the generators' pool (flags, not types, must decide)
    sink = dynmon.Sink(ctx, ASPECTS)

    def on_call(call):
        if call.fn == 'move_agent' and call.action.is_move():
            ctx.nontrivial(('mv', call.pre_enc, call.action.name))
    sink.on_call = None
    with Patch() as patch, reach(ctx, anchored()):
        dynmon.install(patch, sink)
        shapes = [(3, 3), (2, 4)] + ([(1, 1), (1, 3), (3, 1), (4, 4)] if ctx.thorough else [])
        exhaustive(ctx, shapes)
        turn_algebra(ctx, ctx.pick(100, 2000))
        n = ctx.pick(240, 4000)
        for state, cat, rng in dyndrive.random_function_sweep(ctx, 'C08sweep', n):
            y, x = gen.front_of(state)
            if not gen.in_grid(state, y, x) or type(state.grid[y, x]) is not Floor:
                for a in Action:
                    if a.is_move() or a.is_turn():
                        ctx.nontrivial(('sweep', enc.es(state), a.name))
        ctx.sample('sweep_state', {'state': enc.render(state), 'category': cat})
        telepod_fields(ctx, ctx.pick(150, 3000))
        dyndrive.shipped_histories(ctx, 'C08hist', None, ctx.pick(1, 16), ctx.pick(120, 600), history_invariant(ctx, 'shipped'))
        composition_histories(ctx, ctx.pick(24, 2000), ctx.pick(60, 150))
        ctx.extra['exhaustive'] = True


def replay(ctx, kind, payload):
    from .. import custom_objects
    custom_objects.enable(cleats=True)
    if kind == 'fn_case':
        dynmon.replay_call(ctx, payload, ASPECTS)
    elif kind == 'turn_seq':
        state = enc.state_from_json(payload['state'])
        start = enc.es(state)
        for a in payload['seq']:
            call_real(dyndrive.REG['turn_agent'], state, Action[a], rng=None)
        ctx.ev()
        if enc.es(state) != start and len(payload['seq']) != 2 or (payload['seq'] == ['TURN_LEFT', 'TURN_RIGHT'] and enc.es(state) != start):
            ctx.violation('pose', 'turn_agent.algebra', 'turn sequence does not restore the state', kind, payload)
    elif kind == 'history':
        sink = dynmon.Sink(ctx, ASPECTS)
        with Patch() as patch:
            dynmon.install(patch, sink)
            data = dict((n, d) for n, _, d in compose.shipped_configs()).get(payload['config'])
            if data is None:
                return
            env = compose.factory_env(data)
            env.set_seed(payload['seed'])
            ok, state = call_real(env.functional_reset)
            prng = gen.rng_for('C08hist', payload['config'], payload['seed'], payload['policy'])
            per_step = history_invariant(ctx, 'shipped')(payload['config'], payload['seed'], payload['policy'])
            dyndrive.drive_env(ctx, env, state, payload['t'] + 2, workloads.POLICIES[payload['policy']], prng, per_step)
