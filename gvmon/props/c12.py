"""C12 — rewards and termination mean what they say, and agree with each other.
See DESIGN.md §2 C12."""
from .. import boot  # noqa: F401
import functools
import math

import numpy as np

from gym_gridverse.action import Action
from gym_gridverse.envs import gridworld as gridworld_mod
from gym_gridverse.envs import reward_functions as reward_fs
from gym_gridverse.envs import terminating_functions as terminating_fs
from gym_gridverse.geometry import Position
from gym_gridverse.grid_object import Beacon, Door, Exit, Floor, Key, MovingObstacle, Wall, grid_object_registry

from .. import compose, dyndrive, enc, gen, refmodel, workloads
from ..monitor import Patch, call_real, describe_exc, env_slot, exc_site, reach

ID = 'C12'
LEVEL = 'exploration'
DEBUG_TOGGLE = True  # runner flips the library debug flag every 97 monitored executions
TECHNIQUE = 'runtime monitoring: reference-model monitor (one reference per built-in reward/termination component, own BFS for the shortest-path variant) on arbitrary and real triples; spies on GridWorld reward/termination arguments; recording wrappers on the reach_exit parts relating exit reward to exit termination per step'
LEVEL_TEXT = ('Every built-in reward and termination component, built by name with random float parameters (incl. exactly 0.0) both by an independent interpreter and by the library\'s configuration factory, '
              'is evaluated next to a reference written from its docstring on arbitrary triples (next state unrelated) and real '
              'triples (next state from the real dynamics), twice each (determinism); composites are compared with the '
              'sum / any / all of their separately evaluated parts; inside GridWorld.functional_step spies assert that reward '
              'and termination receive exactly (input state, action, returned next state) and that their values are the ones '
              'returned; on every step of every shipped config the reach_exit reward part fires iff the reach_exit termination '
              'part fires iff the next cell is an Exit, and the total reward equals the reference of the configured list.'
              ' Also: serpentine mazes (paths longer than the perimeter, cut-off parts), doors changing status elsewhere than in front, composites with a failing part (must raise), far-distance shaping, aliased triples.')
LEVEL_NOTE = ('Trusted: refmodel.ref_reward/ref_terminating. Triples are restricted to the documented domain (agent inside '
              'the grid on a non-blocking cell, unique object for distance rewards, beacons of one colour, same grid shape).')
SHARDS = {'quick': 4, 'thorough': 16}
BUDGET_S = {'quick': 300, 'thorough': 2400}
RULE = ('case = (component or composite with parameters, state, action, next state). non-trivial = the component fires '
        '(returns something else than its neutral value / True); distinct by (component spec, deep encodings of both states, '
        'action). Categories count each component x {fires, silent} x {real, arbitrary} triple.')
ASSUMPTIONS = ['reference semantics taken from the docstrings; tolerance 1e-9 relative on sums']
REQUIRED = {'quick': {'composite.failing_part': 200, 'maze.evals': 300, 'component.evals': 20000, 'composite.evals': 2000, 'gridworld.spied_steps': 3000,
                      'exit_agreement.steps': 1500, 'exit_agreement.fired': 5, 'shipped.total_reward_checked': 1500, 'far_distance.evals': 100,
                      **{f'fires.reward.{n}': 8 for n in ['reach_exit', 'overlap', 'bump_moving_obstacle', 'bump_into_wall',
                                                          'proportional_to_distance', 'getting_closer',
                                                          'getting_closer_shortest_path', 'actuate_door', 'pickndrop',
                                                          'reach_exit_memory']},
                      **{f'fires.terminating.{n}': 8 for n in ['reach_exit', 'overlap', 'bump_moving_obstacle',
                                                               'bump_into_wall', 'reduce_any', 'reduce_all']}}}

REWARD_NAMES = ['living_reward', 'reach_exit', 'overlap', 'bump_moving_obstacle', 'bump_into_wall',
                'proportional_to_distance', 'getting_closer', 'getting_closer_shortest_path', 'actuate_door', 'pickndrop',
                'reach_exit_memory']
TERM_NAMES = ['reach_exit', 'overlap', 'bump_moving_obstacle', 'bump_into_wall']


def type_map():
    return {t.__name__: t for t in grid_object_registry}


def close(a, b):
    import numpy as _np
    if isinstance(a, (bool, _np.bool_)) or isinstance(b, (bool, _np.bool_)):
        return isinstance(a, (bool, _np.bool_)) and isinstance(b, (bool, _np.bool_)) and bool(a) == bool(b)
    try:
        return math.isclose(a, b, rel_tol=1e-9, abs_tol=1e-9)
    except TypeError:
        return False


def neutral(spec, value):
    n = spec['name']
    if n in ('reach_exit', 'overlap'):
        return value == spec.get('reward_off', 0.0)
    if n == 'living_reward':
        return False
    return value == 0.0


def domain_state(comp, rng):
    """member state meeting the components' documented preconditions, agent on a
    non-blocking cell, beacons of one colour"""
    state, cat = comp.member_state(rng)
    if state is None:
        return None
    if not dyndrive.valid_initial(state):
        free = [(y, x) for y in range(comp.shape[0]) for x in range(comp.shape[1]) if not state.grid[y, x].blocks_movement]
        if not free:
            return None
        y, x = rng.choice(free)
        state.agent.position = Position(y, x)
    beacons = [o for row in state.grid.objects for o in row if isinstance(o, Beacon)]
    for b in beacons[1:]:
        b.color = beacons[0].color
    return state


def component_checks(ctx, comp, types, triples):
    """every reward / termination part and the composites of this composition"""
    specs = [('reward', r) for r in comp.rewards] + [('terminating', comp.terminating)]
    for kind, spec in specs:
        ok, fn = call_real(compose.build, kind, spec)
        if not ok:
            ctx.violation('component', f'build.{spec["name"]}', f'building {spec} raised {describe_exc(fn)}', 'triple',
                          {'spec': spec})
            continue
        ref = refmodel.ref_reward if kind == 'reward' else refmodel.ref_terminating
        composite = spec['name'] in ('reduce_sum', 'reduce_any', 'reduce_all')
        # the same component as the library's own configuration factory builds it (parameters travel through
        # select_kwargs / the schemas there: falsy values such as 0.0 have to arrive like any other)
        import copy as _copy
        from gym_gridverse.envs.yaml import factory as yaml_factory
        okf, ffn = call_real(yaml_factory.factory_reward_function if kind == 'reward' else yaml_factory.factory_terminating_function,
                             _copy.deepcopy(spec))
        if not okf:
            ctx.add('factory_build_refused')  # which specs build is C17's business
            ffn = None
        for (s, a, ns, real) in triples:
            payload = {'kind': kind, 'spec': spec, 'state': enc.state_to_json(s), 'action': a.name,
                       'next_state': enc.state_to_json(ns)}
            before = (enc.es(s), enc.es(ns))
            ok1, v1 = call_real(fn, s, a, ns)
            ok2, v2 = call_real(fn, s, a, ns)
            ctx.ev()
            ctx.hit('composite.evals' if composite else 'component.evals')
            if not ok1:
                ctx.violation('component', f'raises.{kind}.{spec["name"]}',
                              f'{kind} {spec} raised {describe_exc(v1)} on a triple of its domain', 'triple', payload)
                continue
            if not ok2 or not close(v1, v2):
                ctx.violation('component', f'nondeterministic.{kind}.{spec["name"]}',
                              f'{kind} {spec["name"]} gave {v1!r} then {v2!r} on the same triple', 'triple', payload)
            if (enc.es(s), enc.es(ns)) != before:
                ctx.violation('component', f'mutates.{kind}.{spec["name"]}', f'{kind} {spec["name"]} modified its arguments',
                              'triple', payload)
            want = ref(spec, types, s, a, ns)
            fires = (v1 is True) if kind == 'terminating' else not neutral(spec, v1)
            ctx.cat(f'{kind}.{spec["name"]}.{"fires" if fires else "silent"}.{"real" if real else "arbitrary"}')
            if fires:
                ctx.hit(f'fires.{kind}.{spec["name"]}')
                ctx.nontrivial((kind, enc.jdump(spec), enc.es(s), a.name, enc.es(ns)))
            if not close(v1, want) or (kind == 'terminating' and not isinstance(v1, (bool, np.bool_))):
                ctx.violation('component', f'value.{kind}.{spec["name"]}',
                              f'{kind} {spec} returned {v1!r}, documented value {want!r}; agent {enc.ea(s.agent)} -> '
                              f'{enc.ea(ns.agent)} action {a.name}', 'triple', payload)
            if ffn is not None:
                okv, vf = call_real(ffn, s, a, ns)
                ctx.hit('factory_built.evals')
                if okv and not close(vf, want):
                    ctx.violation('component', f'value.factory_built.{kind}.{spec["name"]}',
                                  f'{kind} {spec} built by the configuration factory returned {vf!r}, documented value {want!r}',
                                  'triple', payload)
            if composite:
                parts_key = 'reward_functions' if kind == 'reward' else 'terminating_functions'
                vals = []
                for p in spec[parts_key]:
                    okp, pv = call_real(compose.build(kind, p), s, a, ns)
                    vals.append(pv if okp else None)
                if None not in vals:
                    agg = sum(vals) if spec['name'] == 'reduce_sum' else any(vals) if spec['name'] == 'reduce_any' else all(vals)
                    if not close(v1, agg):
                        ctx.violation('composite', f'composite.{spec["name"]}',
                                      f'{spec["name"]} returned {v1!r} but its parts give {vals} -> {agg!r}', 'triple', payload)
    # the composition's full reward (reduce_sum of the list) against the sum of its parts
    full = {'name': 'reduce_sum', 'reward_functions': comp.rewards}
    fn = compose.build('reward', full)
    parts = [compose.build('reward', r) for r in comp.rewards]
    for (s, a, ns, real) in triples:
        ok, v = call_real(fn, s, a, ns)
        ctx.hit('composite.evals')
        if not ok:
            continue
        vals = [call_real(p, s, a, ns) for p in parts]
        if all(o for o, _ in vals) and not close(v, sum(x for _, x in vals)):
            ctx.violation('composite', 'composite.reduce_sum', f'reduce_sum returned {v!r}, parts {[x for _, x in vals]}', 'triple',
                          {'kind': 'reward', 'spec': full, 'state': enc.state_to_json(s), 'action': a.name,
                           'next_state': enc.state_to_json(ns)})


def direct(comp, rng, s):
    """steer the state towards a situation in which some component fires;
    returns (action, optional hand-made next state) or None"""
    from gym_gridverse.grid_object import Color, Door, Key, NoneGridObject
    h, w = comp.shape
    U = comp.unique_type
    scenario = rng.choice(['door_open', 'door_unlock', 'door_close', 'wall_bump', 'pick', 'drop', 'exit_step', 'obstacle_step',
                           'door_elsewhere'])
    fy, fx = gen.front_of(s)
    if scenario == 'door_elsewhere':
        # a door somewhere other than in front changes its status between the two states (on the opposite rim when the agent
        # faces out of the grid - where a wrapped index would look -, behind the agent, or two cells ahead): nothing the agent
        # faces changed, so nothing is paid for it
        oy, ox = (fy % h, fx % w) if not gen.in_grid(s, fy, fx) else rng.choice(
            [(2 * s.agent.position.y - fy, 2 * s.agent.position.x - fx), (2 * fy - s.agent.position.y, 2 * fx - s.agent.position.x)])
        if (oy, ox) == (fy, fx) or not (gen.in_grid(s, oy, ox) and Door is not U and (U is None or not isinstance(s.grid[oy, ox], U))
                                        and not (comp.need_beacon and isinstance(s.grid[oy, ox], Beacon))):
            return None
        c = rng.choice(list(Color))
        st0, st1 = rng.sample(list(Door.Status), 2)
        s.grid[oy, ox] = Door(st0, c)
        ns = dyndrive.copy_state(s)
        ns.grid[oy, ox] = Door(st1, c)
        return Action.ACTUATE, ns
    move = rng.choice([Action.MOVE_FORWARD, Action.MOVE_BACKWARD, Action.MOVE_LEFT, Action.MOVE_RIGHT])
    dy, dx = refmodel.move_vector(s.agent.orientation, move)
    ty, tx = s.agent.position.y + dy, s.agent.position.x + dx

    def settable(y, x, T):
        return gen.in_grid(s, y, x) and T is not U and (U is None or not isinstance(s.grid[y, x], U)) \
            and not (comp.need_beacon and isinstance(s.grid[y, x], Beacon))

    if scenario in ('door_open', 'door_unlock', 'door_close') and settable(fy, fx, Door):
        c = rng.choice(list(Color))
        if scenario == 'door_open':
            s.grid[fy, fx] = Door(Door.Status.CLOSED, c)
            return Action.ACTUATE, None
        if scenario == 'door_unlock':
            s.grid[fy, fx] = Door(Door.Status.LOCKED, c)
            if U is not Key:
                s.agent.grid_object = Key(c if rng.random() < 0.7 else rng.choice(list(Color)))
            return Action.ACTUATE, None
        s.grid[fy, fx] = Door(Door.Status.OPEN, c)
        ns = dyndrive.copy_state(s)
        ns.grid[fy, fx] = Door(rng.choice([Door.Status.CLOSED, Door.Status.LOCKED]), c)
        return Action.ACTUATE, ns
    if scenario == 'wall_bump' and settable(ty, tx, Wall):
        s.grid[ty, tx] = Wall()
        return move, None
    if scenario == 'exit_step' and settable(ty, tx, Exit):
        s.grid[ty, tx] = Exit(rng.choice(comp.colors))
        return move, None
    if scenario == 'obstacle_step' and settable(ty, tx, MovingObstacle):
        s.grid[ty, tx] = MovingObstacle()
        return move, None
    if scenario == 'pick' and settable(fy, fx, Key) and U is not Key:
        s.grid[fy, fx] = Key(rng.choice(list(Color)))
        s.agent.grid_object = NoneGridObject()
        return Action.PICK_N_DROP, None
    if scenario == 'drop' and settable(fy, fx, Floor) and U is not Key:
        s.grid[fy, fx] = Floor()
        s.agent.grid_object = Key(rng.choice(list(Color)))
        return Action.PICK_N_DROP, None
    return None


def far_distance_checks(ctx, n):
    """distance shaping far away from the object (hundreds of cells): the sign of tiny euclidean changes must survive"""
    from gym_gridverse.agent import Agent
    from gym_gridverse.geometry import Orientation
    from gym_gridverse.grid import Grid
    from gym_gridverse.state import State
    types = type_map()
    for k in range(n):
        rng = gen.rng_for('C12far', ctx.seed, ctx.shard, k)
        h, w = rng.choice([(3, 400), (2, 640), (3, 257), (400, 3)])
        rows = [[Floor() for _ in range(w)] for _ in range(h)]
        ey, ex = (rng.randrange(h), 0) if w > h else (0, rng.randrange(w))
        rows[ey][ex] = Exit()
        far = rng.randint(200, max(h, w) - 2)
        ay, ax = (rng.randrange(h), far) if w > h else (far, rng.randrange(w))
        s = State(Grid(rows), Agent(Position(ay, ax), Orientation.F))
        for (dy, dx) in ((1, 0), (-1, 0), (0, 1), (0, -1)):
            ny, nx = ay + dy, ax + dx
            if not (0 <= ny < h and 0 <= nx < w):
                continue
            ns = State(Grid(rows), Agent(Position(ny, nx), Orientation.F))
            for spec in ({'name': 'getting_closer', 'object_type': 'Exit', 'distance_function': 'euclidean', 'reward_closer': 0.75, 'reward_further': -0.75},
                         {'name': 'getting_closer', 'object_type': 'Exit', 'distance_function': 'manhattan', 'reward_closer': 0.5, 'reward_further': -0.5},
                         {'name': 'proportional_to_distance', 'object_type': 'Exit', 'distance_function': 'euclidean', 'reward_per_unit_distance': -0.125}):
                fn = compose.build('reward', spec)
                ok, v = call_real(fn, s, Action.MOVE_FORWARD, ns)
                ctx.ev()
                ctx.hit('far_distance.evals')
                want = refmodel.ref_reward(spec, types, s, Action.MOVE_FORWARD, ns)
                if not ok or not close(v, want):
                    ctx.violation('component', f'value.reward.{spec["name"]}',
                                  f'{spec["name"]} ({spec["distance_function"]}) {h}x{w} grid, object at ({ey},{ex}), agent ({ay},{ax})->({ny},{nx}): '
                                  f'returned {v!r}, documented value {want!r}', 'far_case', {'k': [ctx.seed, ctx.shard, k]})


def maze_checks(ctx, n):
    """shortest-path shaping in winding corridors: the path to the object is many times longer than the grid is wide (longer
    than its perimeter), and parts of the maze are walled off from the object altogether (distance infinite before and after)"""
    from gym_gridverse.agent import Agent
    from gym_gridverse.geometry import Orientation
    from gym_gridverse.grid import Grid
    from gym_gridverse.state import State
    types = type_map()
    spec = {'name': 'getting_closer_shortest_path', 'object_type': 'Exit', 'reward_closer': 0.25, 'reward_further': -0.5}
    fn = compose.build('reward', spec)
    for k in range(n):
        rng = gen.rng_for('C12maze', ctx.seed, ctx.shard, k)
        h, w = rng.choice([(7, 7), (9, 9), (11, 11), (9, 13), (13, 9), (13, 13), (7, 15)])
        rows = [[Wall() if (y in (0, h - 1) or x in (0, w - 1)) else Floor() for x in range(w)] for y in range(h)]
        # serpentine: full wall rows at every other interior row, with a gap alternating between the right and the left end
        path = []
        for j, y in enumerate(range(1, h - 1)):
            if j % 2 == 1:
                gap = w - 2 if (j // 2) % 2 == 0 else 1
                for x in range(1, w - 1):
                    if x != gap:
                        rows[y][x] = Wall()
                path.append((y, gap))
            else:
                xs = list(range(1, w - 1))
                if (j // 2) % 2 == 1:
                    xs.reverse()
                path += [(y, x) for x in xs]
        if k % 3 == 2:  # wall the last corridor off: everything before it is cut off from the object
            cy, cx = path[len(path) * 2 // 3]
            rows[cy][cx] = Wall()
        ey, ex = path[-1]
        rows[ey][ex] = Exit()
        for _ in range(12):
            i = rng.randrange(len(path) - 1)
            (ay, ax), (ny, nx) = (path[i], path[i + 1]) if rng.random() < 0.5 else (path[i + 1], path[i])
            if type(rows[ay][ax]) is not Floor or type(rows[ny][nx]) not in (Floor, Exit):
                continue
            s_ = State(Grid(rows), Agent(Position(ay, ax), Orientation.F))
            ns = State(Grid(rows), Agent(Position(ny, nx), Orientation.F))
            ok, v = call_real(fn, s_, Action.MOVE_FORWARD, ns)
            ctx.ev()
            ctx.hit('maze.evals')
            want = refmodel.ref_reward(spec, types, s_, Action.MOVE_FORWARD, ns)
            if not ok or not close(v, want):
                ctx.violation('component', 'value.reward.getting_closer_shortest_path',
                              f'{h}x{w} serpentine maze{" (cut)" if k % 3 == 2 else ""}, object at ({ey},{ex}), agent ({ay},{ax})->({ny},{nx}) '
                              f'[{len(path) - 1 - i} corridor cells from the object]: returned {v if ok else describe_exc(v)!r}, '
                              f'documented value {want!r}', 'maze_case', {'k': [ctx.seed, ctx.shard, k]})
            elif want != 0:
                ctx.nontrivial(('maze', h, w, ay, ax, ny, nx))


def make_triples(ctx, comp, rng, n):
    transition = compose.build('transition', {'name': 'chain', 'transition_functions': comp.transitions})
    full_transition = compose.build('transition', {'name': 'chain', 'transition_functions': [
        {'name': n} for n in ('move_agent', 'turn_agent', 'actuate_door', 'actuate_box', 'pickndrop')]})
    out = []
    for _ in range(n):
        s = domain_state(comp, rng)
        if s is None:
            continue
        a = rng.choice(list(Action))
        directed = direct(comp, rng, s) if rng.random() < 0.5 else None
        if directed:
            a, forced_ns = directed
            if forced_ns is not None:
                out.append((s, a, forced_ns, False))
        # real triple
        ns = dyndrive.copy_state(s)
        ok, _ = call_real(full_transition if directed else transition, ns, a,
                          rng=np.random.default_rng(rng.randrange(2**32)))
        if ok:
            out.append((s, a, ns, True))
        # arbitrary triple: unrelated next state of the same space
        ns2 = domain_state(comp, rng)
        if ns2 is not None:
            out.append((s, a, ns2, False))
        if rng.random() < 0.15:
            out.append((s, a, s, False))  # the very same object as state and next state (a step that changes nothing)
    return out


# ------------------------------------------------------------------ GridWorld-level spies


class Spy:
    def __init__(self, fn):
        self.fn = fn
        self.calls = []

    def __call__(self, *args, **kwargs):
        self.seen = enc.es(args[0]) if args and hasattr(args[0], 'grid') else None  # value of `state` at evaluation time
        value = self.fn(*args, **kwargs)
        self.calls.append((args, kwargs, value))
        return value


def install_spies(env):
    """wrap the environment's reward and termination functions (the attributes are found by what they are, not by name)"""
    r_slot, t_slot = env_slot(env, 'reward'), env_slot(env, 'termination')
    if r_slot is None or t_slot is None:
        raise LookupError('the environment keeps its reward / termination function where the harness cannot find them')
    rs, ts = Spy(getattr(env, r_slot)), Spy(getattr(env, t_slot))
    setattr(env, r_slot, rs)
    setattr(env, t_slot, ts)
    env._gvmon_spies = (rs, ts)


def spied_step(ctx, env, state, action, label, payload_fn):
    rs, ts = env._gvmon_spies
    rs.calls.clear()
    ts.calls.clear()
    before = enc.es(state)
    rs.snapshots = ts.snapshots = None
    ok, res = call_real(env.functional_step, state, action)
    ctx.ev()
    if not ok:
        return None
    ns, r, d = res
    ctx.hit('gridworld.spied_steps')
    for name, spy, value in (('reward', rs, r), ('termination', ts, d)):
        if not spy.calls:
            continue  # how often (or whether) the component is evaluated is not part of the statement; values are checked below
        args, kwargs, ret = spy.calls[-1]
        for (cargs, _, _) in spy.calls:
            if len(cargs) < 3 or cargs[0] is not state or cargs[1] is not action or cargs[2] is not ns:
                what = []
                if len(cargs) >= 3:
                    what = ['state' if cargs[0] is state else 'next_state' if cargs[0] is ns else 'other',
                            'action' if cargs[1] is action else 'other',
                            'next_state' if cargs[2] is ns else 'state' if cargs[2] is state else 'other']
                ctx.violation('gridworld', f'gridworld.{name}_arguments',
                              f'{label}: {name} function received {what} instead of (state, action, next_state)', 'env_step', payload_fn())
                break
        if getattr(spy, 'seen', None) is not None and spy.seen != before:
            ctx.violation('gridworld', f'gridworld.{name}_sees_modified_state',
                          f'{label}: when the {name} function was evaluated its `state` argument no longer had the value it had before '
                          f'the step (the same step\'s (state, action, next_state) must be used)', 'env_step', payload_fn())
        if ret is not value and ret != value:
            ctx.violation('gridworld', f'gridworld.{name}_value', f'{label}: step returned {value!r} but the {name} function returned {ret!r}',
                          'env_step', payload_fn())
    return ns, r, d


def install_exit_recorders(ctx, patch, log):
    """record the reach_exit reward part and the reach_exit termination part"""
    def rec_reward(orig):
        def wrapper(state, action, next_state, *a, **k):
            v = orig(state, action, next_state, *a, **k)
            log.append(('reward', k.get('reward_on', 1.0), k.get('reward_off', 0.0), v, next_state))
            return v
        return wrapper

    def rec_term(orig):
        def wrapper(state, action, next_state, *a, **k):
            v = orig(state, action, next_state, *a, **k)
            log.append(('term', None, None, v, next_state))
            return v
        return wrapper

    patch.registry_and_module(reward_fs.reward_function_registry, reward_fs, 'reach_exit', rec_reward)
    patch.registry_and_module(terminating_fs.terminating_function_registry, terminating_fs, 'reach_exit', rec_term)


def exit_agreement(ctx, log, ns, label, payload_fn):
    rew = [e for e in log if e[0] == 'reward' and e[4] is ns]
    ter = [e for e in log if e[0] == 'term' and e[4] is ns]
    if not rew or not ter:
        return
    ctx.hit('exit_agreement.steps')
    p = ns.agent.position
    on_exit = isinstance(ns.grid.objects[p.y][p.x], Exit)
    for (_, on, off, v, _) in rew:
        if on == off:
            continue
        paid = (v == on)
        for (_, _, _, t, _) in ter:
            if paid != bool(t) or paid != on_exit:
                ctx.violation('exit_agreement', 'exit.reward_vs_termination',
                              f'{label}: exit reward paid={paid} (value {v!r}), exit termination={t!r}, agent on exit={on_exit}',
                              'env_step', payload_fn())
    if on_exit:
        ctx.hit('exit_agreement.fired')


def make_comp(seed, k):
    rng = gen.rng_for('C12comp', seed, k)
    comp = workloads.Composition(rng, force_all_actions=True, dense=(k % 4 == 1))
    if k % 3 == 0:  # make sure both exit parts are present in a share of the compositions
        if Exit not in comp.types:
            comp.types.append(Exit)
        comp.rewards.append({'name': 'reach_exit', 'reward_on': workloads.rfloat(rng) + 7.0, 'reward_off': workloads.rfloat(rng)})
        comp.terminating = {'name': 'reduce_any', 'terminating_functions': [comp.terminating, {'name': 'reach_exit'}]}
    return comp, rng


def drive_compositions(ctx, n, log):
    for k in range(n):
        if not ctx.mine(k):
            continue
        if ctx.out_of_time(0.6):
            ctx.add('compositions_skipped_for_time')
            continue
        comp, rng = make_comp(ctx.seed, k)
        types = type_map()
        triples = make_triples(ctx, comp, rng, ctx.pick(20, 40))
        component_checks(ctx, comp, types, triples)
        if k == 0 or ctx.rng.random() < 0.05:
            ctx.sample('composition', comp.summary(), per_kind=1)
        # GridWorld level
        holder = {}
        env = comp.build(lambda rng=None: holder['s'])
        install_spies(env)
        env.set_seed(k)
        full = {'name': 'reduce_sum', 'reward_functions': comp.rewards}
        for j in range(ctx.pick(4, 8)):
            state = domain_state(comp, rng)
            if state is None:
                continue
            for t in range(12):
                action = rng.choice(list(Action))
                del log[:]
                st = state

                def payload(st=st, action=action, k=k):
                    return {'comp_seed': [ctx.seed, k], 'state': enc.state_to_json(st), 'action': action.name}
                pre = dyndrive.copy_state(state)  # the step must be judged against the state as it was *before* the step
                res = spied_step(ctx, env, state, action, f'composition {comp.id}', payload)
                if res is None:
                    break
                ns, r, d = res
                exit_agreement(ctx, log, ns, f'composition {comp.id}', payload)
                want_r = refmodel.ref_reward(full, types, pre, action, ns)
                want_d = refmodel.ref_terminating(comp.terminating, types, pre, action, ns)
                if not close(r, want_r) or not close(d, want_d):
                    ctx.violation('gridworld', 'gridworld.step_values',
                                  f'composition {comp.id}: step returned ({r!r}, {d!r}), reference ({want_r!r}, {want_d!r})',
                                  'env_step', payload())
                if d or not dyndrive.valid_initial(ns):
                    break
                state = ns


def drive_shipped(ctx, log, seeds, steps):
    types = type_map()
    job = 0
    for name, path, data in compose.shipped_configs():
        for s in range(seeds):
            for pol in ('random', 'edge_seeking', 'goal'):
                job += 1
                if not ctx.mine(job):
                    continue
                if ctx.out_of_time(0.95):
                    ctx.add('histories_skipped_for_time')
                    continue
                if pol == 'goal' and not any(k in name for k in ('empty', 'crossing.5x5', 'keydoor.5x5', 'four_rooms.7x7', 'memory.5x5', 'teleport.5x5')):
                    continue
                env = compose.factory_env(data)
                install_spies(env)
                seed = ctx.seed * 1000 + s
                env.set_seed(seed)
                ok, state = call_real(env.functional_reset)
                if not ok:
                    continue
                prng = gen.rng_for('C12hist', name, seed, pol)
                policy = workloads.GoalMixPolicy(max_nodes=1500, ctx=ctx) if pol == 'goal' else workloads.POLICIES[pol]
                full = {'name': 'reduce_sum', 'reward_functions': data['reward_functions']}
                have_ref = all(r['name'] in REWARD_NAMES for r in data['reward_functions'])
                actions_taken = []
                for t in range(steps):
                    action = policy(prng, env, state)
                    actions_taken.append(action.name)
                    del log[:]

                    def payload(state=state, action=action):
                        return {'config': name, 'state': enc.state_to_json(state), 'action': action.name}
                    pre = dyndrive.copy_state(state)
                    res = spied_step(ctx, env, state, action, f'{name} seed={seed} t={t}', payload)
                    if res is None:
                        break
                    ns, r, d = res
                    exit_agreement(ctx, log, ns, f'{name} seed={seed} t={t}', payload)
                    if have_ref:
                        try:
                            want_r = refmodel.ref_reward(full, types, pre, action, ns)
                        except AssertionError:
                            ctx.cat('shipped.precondition_unmet')
                            want_r = None
                        if want_r is not None:
                            ctx.hit('shipped.total_reward_checked')
                            if not close(r, want_r):
                                ctx.violation('gridworld', 'shipped.total_reward',
                                              f'{name} t={t}: step reward {r!r}, reference of the configured list {want_r!r} '
                                              f'({action.name}, agent {enc.ea(state.agent)} -> {enc.ea(ns.agent)})', 'env_step', payload())
                    try:
                        want_d = refmodel.ref_terminating(data['terminating_function'], types, pre, action, ns)
                        if not close(d, want_d):
                            ctx.violation('gridworld', 'shipped.termination', f'{name} t={t}: flag {d!r}, reference {want_d!r}', 'env_step', payload())
                    except KeyError:
                        pass
                    state = ns
                    if d:
                        ctx.cat('shipped.episodes_finished')
                        ok, state = call_real(env.functional_reset)
                        if not ok:
                            break
                ctx.addset('configs', name)


def anchored():
    fs = [getattr(reward_fs, n) for n in REWARD_NAMES + ['reduce', 'reduce_sum']]
    fs += [getattr(terminating_fs, n) for n in TERM_NAMES + ['reduce', 'reduce_any', 'reduce_all']]
    return fs + [gridworld_mod.GridWorld.functional_step]


class PartFailure(Exception):
    pass


def _attempt(fn, *args, **kwargs):
    """(returned normally?, value or exception); the failing parts are harness code, so call_real's harness-error rule does
    not apply here"""
    try:
        return True, fn(*args, **kwargs)
    except Exception as e:  # noqa
        return False, e


def failing_parts(ctx, n):
    """a composite whose part raises on the triple cannot have "the sum of its parts" as value: reduce_sum has to raise too
    (whatever the exception class - StopIteration included, which iterator plumbing tends to swallow), reduce_any /
    reduce_all have to raise unless an earlier part already decided the result"""
    from gym_gridverse.envs import reward_functions as rf, terminating_functions as tf
    excs = [StopIteration, ValueError, KeyError, PartFailure, RuntimeError, IndexError]
    for k in range(n):
        rng = gen.rng_for('C12failing', ctx.seed, ctx.shard, k)
        state, _ = gen.rand_state(rng, [Floor, Wall, Exit, Key, Door], gen.COLORS, hmax=5, wmax=5)  # no Beacon anywhere
        ns = enc.state_from_json(enc.state_to_json(state))
        a = rng.choice(list(Action))
        exc = excs[k % len(excs)]
        builtin = k % 3 == 0  # the library's own reach_exit_memory outside its precondition (no beacon in the next state)

        def failing(state, action, next_state, *, rng=None, exc=exc):
            raise exc('part cannot be evaluated')
        # rewards
        vals = [rng.choice([-1.0, 0.5, 2.0]) for _ in range(rng.randint(1, 3))]
        normal = [functools.partial(rf.living_reward, reward=v) for v in vals]
        bad = rf.factory('reach_exit_memory', reward_good=1.0, reward_bad=-1.0) if builtin else failing
        okb, _ = _attempt(bad, state, a, ns)
        if okb:
            continue
        pos = rng.randrange(len(normal) + 1)
        parts = normal[:pos] + [bad] + normal[pos:]
        ok, v = _attempt(rf.reduce_sum, state, a, ns, reward_functions=parts)
        ctx.ev()
        ctx.hit('composite.failing_part')
        if ok:
            ctx.violation('composite', 'composite.reduce_sum.swallows_failing_part',
                          f'reduce_sum returned {v!r} although part #{pos} of {len(parts)} '
                          f'({"reach_exit_memory without beacon" if builtin else "user part raising " + exc.__name__}) raised: '
                          f'the value is not the sum of its parts', 'failing_case', {'k': [ctx.seed, ctx.shard, k]})
        # terminating
        flags = [rng.random() < 0.5 for _ in range(rng.randint(1, 3))]
        tnormal = [(lambda s, a_, n_, *, rng=None, f=f: f) for f in flags]
        tbad = failing
        pos = rng.randrange(len(tnormal) + 1)
        tparts = tnormal[:pos] + [tbad] + tnormal[pos:]
        for name, red, decided in (('reduce_any', tf.reduce_any, any(flags[:pos])), ('reduce_all', tf.reduce_all, not all(flags[:pos]))):
            ok, v = _attempt(red, state, a, ns, terminating_functions=tparts)
            ctx.ev()
            ctx.hit('composite.failing_part')
            if ok and not decided:
                ctx.violation('composite', f'composite.{name}.swallows_failing_part',
                              f'{name} returned {v!r} although part #{pos} of {len(tparts)} raised {exc.__name__} and the earlier '
                              f'parts {flags[:pos]} do not decide the result', 'failing_case', {'k': [ctx.seed, ctx.shard, k]})
            elif ok and v is not (name == 'reduce_any'):
                ctx.violation('composite', f'composite.{name}', f'{name} returned {v!r} with earlier parts {flags[:pos]}',
                              'failing_case', {'k': [ctx.seed, ctx.shard, k]})


def run(ctx):
    from .. import custom_objects
    custom_objects.enable(cleats=True, subclasses=True)  # user-defined types, incl. subclasses of Exit / MovingObstacle / Door
    log = []
    with Patch() as patch, reach(ctx, anchored()):
        install_exit_recorders(ctx, patch, log)
        drive_compositions(ctx, ctx.pick(240, 12000), log)
        far_distance_checks(ctx, ctx.pick(10, 150))
        failing_parts(ctx, ctx.pick(120, 2000))
        maze_checks(ctx, ctx.pick(40, 600))
        drive_shipped(ctx, log, ctx.pick(1, 20), ctx.pick(120, 500))


def replay(ctx, kind, payload):
    from .. import custom_objects
    custom_objects.enable(cleats=True, subclasses=True)
    types = type_map()
    if kind == 'maze_case':
        ctx.seed, ctx.shard = payload['k'][0], payload['k'][1]
        maze_checks(ctx, payload['k'][2] + 1)
        return
    if kind == 'failing_case':
        ctx.seed, ctx.shard = payload['k'][0], payload['k'][1]
        failing_parts(ctx, payload['k'][2] + 1)
        return
    if kind == 'far_case':
        ctx.seed, ctx.shard = payload['k'][0], payload['k'][1]
        far_distance_checks(ctx, payload['k'][2] + 1)
        return
    if kind == 'triple':
        spec, k = payload['spec'], payload['kind']
        s, ns = enc.state_from_json(payload['state']), enc.state_from_json(payload['next_state'])
        a = Action[payload['action']]
        fn = compose.build(k, spec)
        ok, v = call_real(fn, s, a, ns)
        ctx.ev()
        ref = refmodel.ref_reward if k == 'reward' else refmodel.ref_terminating
        want = ref(spec, types, s, a, ns)
        if not ok:
            ctx.violation('component', f'raises.{k}.{spec["name"]}', describe_exc(v), kind, payload)
        elif not close(v, want):
            ctx.violation('component', f'value.{k}.{spec["name"]}', f'returned {v!r}, documented {want!r}', kind, payload)
    elif kind == 'env_step':
        log = []
        with Patch() as patch:
            install_exit_recorders(ctx, patch, log)
            state, action = enc.state_from_json(payload['state']), Action[payload['action']]
            if 'config' in payload:
                data = dict((n, d) for n, _, d in compose.shipped_configs())[payload['config']]
                env = compose.factory_env(data)
                full = {'name': 'reduce_sum', 'reward_functions': data['reward_functions']}
                term = data['terminating_function']
            else:
                comp, _ = make_comp(*payload['comp_seed'])
                env = comp.build(lambda rng=None: state)
                full = {'name': 'reduce_sum', 'reward_functions': comp.rewards}
                term = comp.terminating
            install_spies(env)
            env.set_seed(0)
            res = spied_step(ctx, env, state, action, 'replay', lambda: payload)
            if res:
                ns, r, d = res
                exit_agreement(ctx, log, ns, 'replay', lambda: payload)
                try:
                    if not close(r, refmodel.ref_reward(full, types, state, action, ns)):
                        ctx.violation('gridworld', 'shipped.total_reward', 'reward differs from reference', kind, payload)
                    if not close(d, refmodel.ref_terminating(term, types, state, action, ns)):
                        ctx.violation('gridworld', 'shipped.termination', 'flag differs from reference', kind, payload)
                except (KeyError, AssertionError):
                    pass
