"""C01 — closure and totality of step / observation; rejected actions change
nothing; membership predicates are exact.  See DESIGN.md §2 C01."""
from .. import boot  # noqa: F401
import math

import numpy as np

from gym_gridverse.action import Action
from gym_gridverse.agent import Agent
from gym_gridverse.debugging import reset_gv_debug
from gym_gridverse.envs import gridworld as gridworld_mod
from gym_gridverse.envs import reward_functions as reward_fs
from gym_gridverse.envs import terminating_functions as terminating_fs
from gym_gridverse.envs import transition_functions as transition_fs
from gym_gridverse.geometry import Orientation, Position
from gym_gridverse.grid import Grid
from gym_gridverse.grid_object import Color, Floor, Hidden, NoneGridObject
from gym_gridverse.observation import Observation
from gym_gridverse.state import State
from gym_gridverse import spaces as spaces_mod

from .. import compose, enc, gen, workloads
from ..monitor import call_real, describe_exc, env_rng_state_repr, exc_site, reach, stateful_slots

ID = 'C01'
LEVEL = 'exploration'
TECHNIQUE = 'runtime monitoring: invariant-at-a-hook on GridWorld.functional_step/observation with an independent conformance oracle, over generated member states of random compositions and policy-driven histories of shipped configs'
LEVEL_TEXT = ('Every monitored call of the real functional_step/functional_observation (debug flag on and off) is checked '
              'against an independently written definition of space membership, finite-float reward and boolean flag; '
              'out-of-space actions must raise ValueError and leave state, memoised observation and generator untouched; '
              'the contains predicates are compared with the oracle on members and single-dimension perturbations. '
              'Universally quantified over compositions/states, so decided only on the executions produced (counts in evidence).'
              ' Also: steered and dense compositions, view = whole grid poses, in-place predicate probes, observation purity, thirteen non-Action values offered as actions (same ValueError, nothing changed), shared Floor / Wall instances, numpy-typed coordinates.')
LEVEL_NOTE = ('Trusted: the harness oracle (conforms_state/conforms_observation), the generators honouring documented '
              'preconditions (Floor declared, unique object for distance rewards, beacon present for reach_exit_memory). '
              'Colours of states are outside the statement and not probed.')
SHARDS = {'quick': 4, 'thorough': 16}
BUDGET_S = {'quick': 300, 'thorough': 2400}
RULE = (
    'case = (composition or shipped config, member state, action) monitored through the real '
    'GridWorld.functional_step/functional_observation with the debug flag on and off; states of random '
    'compositions are drawn from the declared state space itself (forced categories: each grid edge and '
    'corner facing outward), shipped configs are driven from reset by three policies. non-trivial = the '
    'cell in front of the agent is outside the grid or not plain Floor, or the agent stands on a non-Floor '
    'cell, or holds an item; distinct = distinct (composition, deep state encoding, action).'
)
ASSUMPTIONS = [
    'documented preconditions honoured by the generator: Floor is a declared type, box contents and held '
    'items are of declared types, distance rewards only with a unique object the dynamics cannot create or '
    'destroy, reach_exit_memory only with a beacon present, view areas of the form ObservationSpace supports',
    'state colours are not part of the statement: only declared colours are generated',
    'held on the executions observed; no claim about compositions/states not generated',
]
REQUIRED = {
    'quick': {
        'step.sweep': 5000,
        'step.shipped': 2000,
        'obs.checked': 5000,
        'rejected_action': 50,
        'rejected_junk': 50,
        'predicate.state': 500,
        'predicate.observation': 500,
        'edge_out.top_out': 100,
        'edge_out.bottom_out': 100,
        'edge_out.left_out': 100,
        'edge_out.right_out': 100,
        'steered.on_telepod': 100,
        'compositions.dense': 10,
        'compositions.view_equals_grid': 5,
        'pose.at_view_anchor': 50,
        'predicate.in_place_sequence': 300,
        'steered.door_front': 100,
    }
}


# ------------------------------------------------------------------ oracles


def is_boolean(x):
    """a Python bool or a numpy bool (positions sampled with rng.integers make Area.contains return numpy booleans)"""
    import numpy as np
    return isinstance(x, (bool, np.bool_))


def conforms_state(shape, types, s):
    """independent definition of state-space membership (from the statement)"""
    why = []
    objs = s.grid.objects
    if (len(objs), len(objs[0]) if objs else 0) != tuple(shape) or any(len(r) != shape[1] for r in objs):
        why.append('shape')
        return why
    bad = sorted({type(o).__name__ for row in objs for o in row if type(o) not in types})
    if bad:
        why.append('undeclared grid type ' + ','.join(bad))
    p = s.agent.position
    if not (0 <= p.y < shape[0] and 0 <= p.x < shape[1]):
        why.append(f'agent outside grid ({p.y},{p.x})')
    if not isinstance(s.agent.orientation, Orientation):
        why.append('heading is not an Orientation')
    if type(s.agent.grid_object) not in types and type(s.agent.grid_object) is not NoneGridObject:
        why.append('undeclared held type ' + type(s.agent.grid_object).__name__)
    return why


def conforms_observation(view_shape, types, colors, o):
    why = []
    objs = o.grid.objects
    if (len(objs), len(objs[0]) if objs else 0) != tuple(view_shape) or any(len(r) != view_shape[1] for r in objs):
        why.append('shape')
        return why
    colors = set(colors) | {Color.NONE}
    bad = sorted({type(c).__name__ for row in objs for c in row if type(c) not in types and type(c) is not Hidden})
    if bad:
        why.append('undeclared grid type ' + ','.join(bad))
    badc = sorted({c.color.name for row in objs for c in row if c.color not in colors})
    if badc:
        why.append('undeclared grid colour ' + ','.join(badc))
    p = o.agent.position
    if not (0 <= p.y < view_shape[0] and 0 <= p.x < view_shape[1]):
        why.append('agent outside view')
    held = o.agent.grid_object
    if type(held) not in types and type(held) is not NoneGridObject:
        why.append('undeclared held type ' + type(held).__name__)
    if held.color not in colors:
        why.append('undeclared held colour')
    return why


class Decl:
    """the declared spaces of an environment, read once from the space objects
    (data only; membership is decided by the oracles above)"""

    def __init__(self, env):
        ss, os_ = env.state_space, env.observation_space
        self.shape = (ss.grid_shape.height, ss.grid_shape.width)
        self.types = set(ss.object_types)
        self.view = (os_.grid_shape.height, os_.grid_shape.width)
        self.otypes = set(os_.object_types)
        self.ocolors = set(os_.colors)


def nontrivial(state):
    y, x = gen.front_of(state)
    if not gen.in_grid(state, y, x):
        return True
    if type(state.grid[y, x]) is not Floor:
        return True
    if type(state.grid[state.agent.position.y, state.agent.position.x]) is not Floor:
        return True
    return type(state.agent.grid_object) is not NoneGridObject


# ------------------------------------------------------------------ monitored step


def check_step(ctx, env, decl, state, action, label, payload_fn, tag):
    """monitor one functional_step + observation of the next state"""
    before = enc.es(state)
    ok, res = call_real(env.functional_step, state, action)
    ctx.ev()
    ctx.hit('step.' + tag)
    if not ok:
        ctx.violation('step_total', 'raises.' + exc_site(res),
                      f'{label}: functional_step({action.name}) raised {describe_exc(res)}', 'step', payload_fn())
        return None
    try:
        next_state, reward, done = res
    except Exception:
        ctx.violation('step_result', 'result.shape', f'{label}: functional_step returned {res!r}', 'step', payload_fn())
        return None
    why = conforms_state(decl.shape, decl.types, next_state)
    if why:
        ctx.violation('step_closure', 'closure.' + why[0].split(' (')[0].replace(' ', '_'),
                      f'{label}: next state after {action.name} not in state space: {why}', 'step', payload_fn())
    if not isinstance(reward, float) or not math.isfinite(reward):
        ctx.violation('step_reward', 'reward.not_finite_float',
                      f'{label}: reward {reward!r} ({type(reward).__name__}) is not a finite float', 'step', payload_fn())
    if not is_boolean(done):
        ctx.violation('step_done', 'done.not_bool', f'{label}: termination flag {done!r} ({type(done).__name__})',
                      'step', payload_fn())
    if enc.es(state) != before:
        ctx.violation('step_input_changed', 'input.mutated', f'{label}: functional_step mutated its input', 'step',
                      payload_fn())
    if why:
        return None
    return next_state


def check_obs(ctx, env, decl, state, label, payload_fn):
    before = enc.es(state)
    ok, obs = call_real(env.functional_observation, state)
    ctx.hit('obs.checked')
    if enc.es(state) != before:
        ctx.violation('obs_input_changed', 'obs_input.mutated',
                      f'{label}: functional_observation modified the state it observed (agent {before[1][:3]}): the state '
                      f'{"left" if conforms_state(decl.shape, decl.types, state) else "is still in"} the state space', 'step', payload_fn())
    if not ok:
        ctx.violation('obs_total', 'obs_raises.' + exc_site(obs),
                      f'{label}: functional_observation raised {describe_exc(obs)}', 'step', payload_fn())
        return
    why = conforms_observation(decl.view, decl.otypes, decl.ocolors, obs)
    if why:
        ctx.violation('obs_closure', 'obs_closure.' + why[0].split(' (')[0].replace(' ', '_'),
                      f'{label}: observation not in observation space: {why}', 'step', payload_fn())


# ------------------------------------------------------------------ predicate exactness


def predicate_probes(ctx, env, decl, state, label, payload_fn):
    """StateSpace/ObservationSpace.contains must agree with the oracle on the
    member and on single-dimension perturbations of it"""
    undeclared = [t for t in gen.GRID_TYPES if t not in decl.types]
    h, w = decl.shape
    probes = [('member', state)]

    def mk(grid=None, pos=None, ori=None, held=None):
        g = grid if grid is not None else state.grid
        a = Agent(pos if pos is not None else state.agent.position,
                  ori if ori is not None else state.agent.orientation, held if held is not None else state.agent.grid_object)
        return State(g, a)

    probes.append(('extra_row', mk(grid=Grid([list(r) for r in state.grid.objects] + [list(state.grid.objects[0])]))))
    probes.append(('extra_col', mk(grid=Grid([list(r) + [r[0]] for r in state.grid.objects]))))
    if undeclared:
        T = ctx.rng.choice(undeclared)
        rows = [list(r) for r in state.grid.objects]
        y, x = ctx.rng.randrange(h), ctx.rng.randrange(w)
        rows[y][x] = gen.make_obj(ctx.rng, T, list(decl.ocolors), [Floor])
        probes.append(('undeclared_cell', mk(grid=Grid(rows))))
        probes.append(('undeclared_held', mk(held=gen.make_obj(ctx.rng, T, list(decl.ocolors), [Floor]))))
    rows = [list(r) for r in state.grid.objects]
    rows[ctx.rng.randrange(h)][ctx.rng.randrange(w)] = Hidden()
    probes.append(('hidden_cell', mk(grid=Grid(rows))))
    probes.append(('hidden_held', mk(held=Hidden())))
    for name, pos in (('agent_y-1', Position(-1, 0)), ('agent_y=h', Position(h, 0)),
                      ('agent_x-1', Position(0, -1)), ('agent_x=w', Position(0, w))):
        probes.append((name, mk(pos=pos)))
    probes.append(('heading_int', mk(ori=0)))
    for name, s in probes:
        want = not conforms_state(decl.shape, decl.types, s)
        ok, got = call_real(env.state_space.contains, s)
        ctx.hit('predicate.state')
        ctx.cat('predicate.state.' + name)
        if not ok or not is_boolean(got) or bool(got) != want:
            ctx.violation('predicate_state', 'predicate.state.' + name,
                          f'{label}: StateSpace.contains -> {got!r} but conformance is {want} for probe {name}',
                          'predicate', payload_fn())

    # in-place sequences on one and the same state object: make it non-conforming, ask, restore it, ask again
    if undeclared:
        work = enc.state_from_json(enc.state_to_json(state))
        seq = []
        for step in range(3):
            y, x = ctx.rng.randrange(h), ctx.rng.randrange(w)
            original = work.grid[y, x]
            T = ctx.rng.choice(undeclared)
            for name, obj in (('place_undeclared', gen.make_obj(ctx.rng, T, list(decl.ocolors), [Floor])), ('restore', original)):
                work.grid[y, x] = obj
                seq.append(name)
                want = not conforms_state(decl.shape, decl.types, work)
                ok, got = call_real(env.state_space.contains, work)
                ctx.hit('predicate.state')
                ctx.hit('predicate.in_place_sequence')
                if not ok or bool(got) != want:
                    ctx.violation('predicate_state', 'predicate.state.in_place_sequence',
                                  f'{label}: after the in-place updates {seq} of one state object StateSpace.contains -> {got!r} but '
                                  f'conformance is {want}', 'predicate', payload_fn())
        held0 = work.agent.grid_object
        work.agent.grid_object = gen.make_obj(ctx.rng, ctx.rng.choice(undeclared), list(decl.ocolors), [Floor])
        ok, got = call_real(env.state_space.contains, work)
        if not ok or got is not False:
            ctx.violation('predicate_state', 'predicate.state.in_place_sequence', f'{label}: undeclared held item set in place -> {got!r}',
                          'predicate', payload_fn())
        work.agent.grid_object = held0
        ok, got = call_real(env.state_space.contains, work)
        if not ok or got is not True:
            ctx.violation('predicate_state', 'predicate.state.in_place_sequence', f'{label}: state restored in place -> {got!r}',
                          'predicate', payload_fn())
        ok_o, obs_w = call_real(env.functional_observation, work)
        if ok_o and decl.otypes != set(gen.GRID_TYPES):
            oundecl0 = [t for t in gen.GRID_TYPES if t not in decl.otypes]
            if oundecl0:
                oy, ox = ctx.rng.randrange(decl.view[0]), ctx.rng.randrange(decl.view[1])
                orig = obs_w.grid[oy, ox]
                for name, obj in (('place_undeclared', gen.make_obj(ctx.rng, ctx.rng.choice(oundecl0), list(decl.ocolors), [Floor])),
                                  ('restore', orig)):
                    obs_w.grid[oy, ox] = obj
                    want = not conforms_observation(decl.view, decl.otypes, decl.ocolors, obs_w)
                    ok, got = call_real(env.observation_space.contains, obs_w)
                    ctx.hit('predicate.observation')
                    if not ok or bool(got) != want:
                        ctx.violation('predicate_observation', 'predicate.observation.in_place_sequence',
                                      f'{label}: after in-place {name} ObservationSpace.contains -> {got!r} but conformance is {want}',
                                      'predicate', payload_fn())

    ok, obs = call_real(env.functional_observation, state)
    if not ok:
        return
    vh, vw = decl.view
    oprobes = [('member', obs)]

    def mko(grid=None, pos=None, held=None):
        g = grid if grid is not None else obs.grid
        return Observation(g, Agent(pos if pos is not None else obs.agent.position, obs.agent.orientation,
                                    held if held is not None else obs.agent.grid_object))

    oprobes.append(('extra_row', mko(grid=Grid([list(r) for r in obs.grid.objects] + [list(obs.grid.objects[0])]))))
    oundecl = [t for t in gen.GRID_TYPES if t not in decl.otypes]
    if oundecl:
        T = ctx.rng.choice(oundecl)
        rows = [list(r) for r in obs.grid.objects]
        rows[ctx.rng.randrange(vh)][ctx.rng.randrange(vw)] = gen.make_obj(ctx.rng, T, list(decl.ocolors), [Floor])
        oprobes.append(('undeclared_cell', mko(grid=Grid(rows))))
        oprobes.append(('undeclared_held', mko(held=gen.make_obj(ctx.rng, T, list(decl.ocolors), [Floor]))))
    rows = [list(r) for r in obs.grid.objects]
    rows[ctx.rng.randrange(vh)][ctx.rng.randrange(vw)] = NoneGridObject()
    oprobes.append(('none_cell', mko(grid=Grid(rows))))
    oprobes.append(('hidden_held', mko(held=Hidden())))
    badcolors = [c for c in Color if c not in decl.ocolors and c is not Color.NONE]
    from gym_gridverse.grid_object import Exit, Key
    if badcolors:
        c = ctx.rng.choice(badcolors)
        if Exit in decl.otypes:
            rows = [list(r) for r in obs.grid.objects]
            rows[ctx.rng.randrange(vh)][ctx.rng.randrange(vw)] = Exit(c)
            oprobes.append(('undeclared_cell_colour', mko(grid=Grid(rows))))
        if Key in decl.otypes:
            oprobes.append(('undeclared_held_colour', mko(held=Key(c))))
    for name, pos in (('agent_y-1', Position(-1, 0)), ('agent_y=h', Position(vh, 0)),
                      ('agent_x-1', Position(0, -1)), ('agent_x=w', Position(0, vw))):
        oprobes.append((name, mko(pos=pos)))
    for name, o in oprobes:
        want = not conforms_observation(decl.view, decl.otypes, decl.ocolors, o)
        ok, got = call_real(env.observation_space.contains, o)
        ctx.hit('predicate.observation')
        ctx.cat('predicate.observation.' + name)
        if not ok or bool(got) != want:
            ctx.violation('predicate_observation', 'predicate.observation.' + name,
                          f'{label}: ObservationSpace.contains -> {got!r} but conformance is {want} for probe {name}',
                          'predicate', payload_fn())


def rng_state(env):
    return env_rng_state_repr(env)


class _Junk:
    def __init__(self, value):
        self.value = value


JUNK_ACTIONS = [None, 0, 1, 7, -1, 'MOVE_FORWARD', 'junk', 2.5, np.int64(1), (), [], {}, np.array(2)]


def rejected_actions(ctx, env, state, label, payload_fn):
    """every Action member outside the action space: ValueError, and nothing
    changes (state, memoised observation, generator state)"""
    slots = getattr(env, '_gvmon_slots', None)
    if slots is None:
        slots = (None, None)
        try:
            ok_r, _ = call_real(env.reset)
            if ok_r:
                slots = stateful_slots(env)
        except Exception:  # noqa
            slots = (None, None)
        try:
            env._gvmon_slots = slots
        except Exception:  # noqa
            pass
    outside = [a for a in Action if a not in env.action_space.actions]
    # values that are not Action members at all (an index, a name, None, containers, arrays) are outside every action
    # space too; they get the same treatment, once per label family
    junk = [_Junk(j) for j in JUNK_ACTIONS] if ctx.hits['rejected_junk'] < 400 or ctx.evaluations % 50 == 0 else []
    for a in outside + junk:
        is_junk = isinstance(a, _Junk)
        if is_junk:
            a = a.value
            ctx.hit('rejected_junk')
        nm = a.name if isinstance(a, Action) else f'non-action {a!r}'
        a_name = nm
        ok, want_member = call_real(env.action_space.contains, a)
        if not is_junk and (not ok or want_member is not False):
            ctx.violation('predicate_action', 'predicate.action',
                          f'{label}: ActionSpace.contains({nm}) -> {want_member!r} for an action outside',
                          'rejected', payload_fn())
        for stateful in (False, True):
            # put the stateful environment into `state` with its observation memoised (the slots are found by identity with
            # what the public properties return; an environment that keeps them elsewhere only gets the functional variant)
            if stateful and None in slots:
                ctx.hit('rejected_action.stateful_variant_unavailable')
                continue
            if None not in slots:
                setattr(env, slots[0], state)
                setattr(env, slots[1], None)
                _ = env.observation  # memoise
                memo = getattr(env, slots[1])
            else:
                memo = None
            cur_state = (lambda: getattr(env, slots[0])) if None not in slots else (lambda: state)
            before_s, before_r = enc.es(cur_state()), rng_state(env)
            if stateful:
                ok, res = call_real(env.step, a)
            else:
                ok, res = call_real(env.functional_step, state, a)
            ctx.hit('rejected_action')
            ctx.ev()
            tag = 'step' if stateful else 'functional_step'
            if ok:
                ctx.violation('rejected_action', 'action.accepted',
                              f'{label}: {tag}({a_name}) outside the action space was accepted', 'rejected',
                              payload_fn())
            elif not isinstance(res, ValueError):
                ctx.violation('rejected_action', 'action.wrong_exception',
                              f'{label}: {tag}({a_name}) rejected with {describe_exc(res)} instead of ValueError',
                              'rejected', payload_fn())
            if enc.es(cur_state()) != before_s or cur_state() is not state:
                ctx.violation('rejected_action', 'action.changed_state',
                              f'{label}: rejected {tag}({a_name}) changed the state', 'rejected', payload_fn())
            if None not in slots and getattr(env, slots[1]) is not memo:
                ctx.violation('rejected_action', 'action.changed_observation',
                              f'{label}: rejected {tag}({a_name}) dropped/replaced the memoised observation',
                              'rejected', payload_fn())
            if rng_state(env) != before_r:
                ctx.violation('rejected_action', 'action.consumed_randomness',
                              f'{label}: rejected {tag}({a_name}) moved the generator', 'rejected', payload_fn())
    for a in env.action_space.actions:
        ok, m = call_real(env.action_space.contains, a)
        if not ok or m is not True:
            ctx.violation('predicate_action', 'predicate.action',
                          f'{label}: ActionSpace.contains({a.name}) -> {m!r} for a member', 'rejected', payload_fn())


# ------------------------------------------------------------------ workloads


def sweep_composition(ctx, comp_seed, n_states, debug):
    rng = gen.rng_for('C01comp', comp_seed)
    comp = workloads.Composition(rng, dense=(comp_seed % 3 == 0))
    if comp_seed % 3 == 0:
        ctx.hit('compositions.dense')
    if comp_seed % 5 == 1:  # the view coincides with the whole grid when the agent stands at the anchor facing forward
        comp.shape = (comp.area.height, comp.area.width)
        ctx.hit('compositions.view_equals_grid')
    holder = {}
    env = comp.build(lambda rng=None: holder['s'])
    env.set_seed(comp_seed)
    decl = Decl(env)
    reset_gv_debug(debug)
    ctx.add('compositions')
    ctx.sample('composition', comp.summary(), per_kind=1)
    cats = [c for c in gen.POSE_CATEGORIES]
    for k in range(n_states):
        srng = gen.rng_for('C01state', comp_seed, k)
        state, cat = comp.member_state(srng, category=cats[k % len(cats)])
        if state is None:
            continue
        if comp_seed % 5 == 1 and k % 4 == 0:
            state.agent.position = Position(comp.shape[0] - 1, comp.shape[1] // 2)
            state.agent.orientation = Orientation.F
            ctx.hit('pose.at_view_anchor')
        if k % 2 == 1 or comp_seed % 3 == 0:  # steer every other state (every state of a dense composition) towards interacting components (telepod + door in front, key in hand ...)
            for sc in workloads.steer(comp, srng, state):
                ctx.hit('steered.' + sc)
        holder['s'] = state
        label = f'composition {comp.id} state#{k}'
        js = None

        def payload(action=None, _state=state):
            return {'comp_seed': comp_seed, 'state_index': k, 'state': enc.state_to_json(_state),
                    'action': action, 'debug': debug}

        nt = nontrivial(state)
        if cat.endswith('_out'):
            ctx.hit('edge_out.' + ('corner_out' if cat == 'corner_out' else cat))
            y, x = gen.front_of(state)
            if not gen.in_grid(state, y, x) and cat == 'corner_out':
                side = {Orientation.F: 'top_out', Orientation.B: 'bottom_out', Orientation.L: 'left_out',
                        Orientation.R: 'right_out'}[state.agent.orientation]
                ctx.hit('edge_out.' + side)
        check_obs(ctx, env, decl, state, label, payload)
        if k % 10 == 0:
            predicate_probes(ctx, env, decl, state, label, payload)
        if k % 25 == 0 and len(env.action_space.actions) < len(Action):
            rejected_actions(ctx, env, state, label, payload)
        for action in env.action_space.actions:
            ctx.cat(f'sweep.{cat}.{action.name}')
            if nt:
                ctx.nontrivial((comp.id, enc.es(state), action.name))
            nxt = check_step(ctx, env, decl, state, action, label,
                             lambda a=action: payload(a.name), 'sweep')
            # short history from the member state (reaches held-item / on-telepod states)
            depth = 0
            while nxt is not None and depth < 2:
                check_obs(ctx, env, decl, nxt, label + f' +{depth + 1}', lambda a=action: payload(a.name))
                a2 = srng.choice(env.action_space.actions)
                s_here = nxt
                nxt = check_step(ctx, env, decl, s_here, a2, label + f' +{depth + 1}',
                                 lambda s=s_here, a=a2: {'comp_seed': comp_seed, 'state': enc.state_to_json(s),
                                                         'action': a.name, 'debug': debug}, 'sweep')
                depth += 1
        if k == 0:
            ctx.sample('sweep_state', {'composition': comp.id, 'category': cat, 'state': enc.render(state)})
    reset_gv_debug(True)


def drive_shipped(ctx, name, data, seed, policy_name, steps, debug):
    reset_gv_debug(debug)
    try:
        env = compose.factory_env(data)
    except Exception as e:
        ctx.violation('shipped_build', 'shipped.build', f'{name}: factory raised {describe_exc(e)}', 'shipped',
                      {'config': name})
        return
    env.set_seed(seed)
    decl = Decl(env)
    prng = gen.rng_for('C01policy', name, seed, policy_name)
    policy = (workloads.GoalMixPolicy(max_nodes=1500, ctx=ctx) if policy_name == 'goal'
              else workloads.POLICIES[policy_name])
    ok, state = call_real(env.functional_reset)
    if not ok:
        ctx.violation('reset_total', 'reset_raises.' + exc_site(state), f'{name}: reset raised {describe_exc(state)}',
                      'shipped', {'config': name, 'seed': seed})
        return
    actions_taken = []

    def payload():
        return {'config': name, 'seed': seed, 'policy': policy_name, 'actions': list(actions_taken), 'debug': debug}

    why = conforms_state(decl.shape, decl.types, state)
    if why:
        ctx.violation('reset_closure', 'reset_closure', f'{name}: reset state not in state space: {why}', 'shipped',
                      payload())
    for t in range(steps):
        label = f'{name} seed={seed} policy={policy_name} t={t}'
        check_obs(ctx, env, decl, state, label, payload)
        if t % 40 == 0:
            predicate_probes(ctx, env, decl, state, label, payload)
            if len(env.action_space.actions) < len(Action):
                rejected_actions(ctx, env, state, label, payload)
        action = policy(prng, env, state)
        actions_taken.append(action.name)
        if nontrivial(state):
            ctx.nontrivial((name, enc.es(state), action.name))
        ok, res = call_real(env.functional_step, state, action)
        ctx.ev()
        ctx.hit('step.shipped')
        if not ok:
            ctx.violation('step_total', 'raises.' + exc_site(res),
                          f'{label}: functional_step({action.name}) raised {describe_exc(res)}', 'shipped', payload())
            break
        nxt, reward, done = res
        why = conforms_state(decl.shape, decl.types, nxt)
        if why:
            ctx.violation('step_closure', 'closure.' + why[0].split(' (')[0].replace(' ', '_'),
                          f'{label}: next state not in state space: {why}', 'shipped', payload())
            break
        if not isinstance(reward, float) or not math.isfinite(reward):
            ctx.violation('step_reward', 'reward.not_finite_float', f'{label}: reward {reward!r}', 'shipped', payload())
        if not is_boolean(done):
            ctx.violation('step_done', 'done.not_bool', f'{label}: flag {done!r}', 'shipped', payload())
        state = nxt
        if done:
            ctx.cat('shipped.episodes')
            ok, state = call_real(env.functional_reset)
            actions_taken.append('RESET')
            if not ok:
                ctx.violation('reset_total', 'reset_raises.' + exc_site(state),
                              f'{name}: reset raised {describe_exc(state)}', 'shipped', payload())
                break
    ctx.addset('configs', name)
    reset_gv_debug(True)


def anchored():
    return [
        gridworld_mod.GridWorld.functional_step,
        gridworld_mod.GridWorld.functional_observation,
        gridworld_mod.GridWorld.functional_reset,
        transition_fs.move_agent, transition_fs.pickndrop, transition_fs.actuate_door, transition_fs.actuate_box,
        transition_fs.teleport, transition_fs.move_obstacles, transition_fs.turn_agent,
        reward_fs.actuate_door, reward_fs.bump_into_wall, terminating_fs.bump_into_wall,
        spaces_mod.StateSpace.contains, spaces_mod.ObservationSpace.contains, spaces_mod.ActionSpace.contains,
    ]


def run(ctx):
    from .. import custom_objects
    custom_objects.enable(cleats=True)  # user-defined object types join the generators' pool (flags, not types, must decide)
    n_comp = ctx.pick(96, 4000)
    n_states = ctx.pick(64, 120)
    with reach(ctx, anchored()):
        for c in range(n_comp):
            if not ctx.mine(c):
                continue
            if ctx.out_of_time():
                ctx.add('compositions_skipped_for_time')
                continue
            sweep_composition(ctx, ctx.seed * 100003 + c, n_states, debug=(c % 2 == 0))
        configs = compose.shipped_configs()
        seeds = ctx.pick(2, 30)
        steps = ctx.pick(150, 600)
        job = 0
        for name, path, data in configs:
            for s in range(seeds):
                for pol in list(workloads.POLICIES) + ['goal']:
                    if pol == 'goal' and not any(k in name for k in ('empty', 'crossing.5x5', 'keydoor.5x5', 'keydoor.7x7',
                                                                      'four_rooms.7x7', 'memory.5x5', 'teleport.5x5')):
                        continue
                    job += 1
                    if not ctx.mine(job):
                        continue
                    drive_shipped(ctx, name, data, ctx.seed * 1000 + s, pol, steps, debug=(job % 2 == 0))


def replay(ctx, kind, payload):
    from .. import custom_objects
    custom_objects.enable(cleats=True)
    if kind in ('step', 'predicate', 'rejected') and 'comp_seed' in payload:
        rng = gen.rng_for('C01comp', payload['comp_seed'])
        comp = workloads.Composition(rng, dense=(payload['comp_seed'] % 3 == 0))
        if payload['comp_seed'] % 5 == 1:
            comp.shape = (comp.area.height, comp.area.width)
        state = enc.state_from_json(payload['state'])
        env = comp.build(lambda rng=None: state)
        env.set_seed(payload['comp_seed'])
        decl = Decl(env)
        reset_gv_debug(payload.get('debug', True))
        pl = lambda: payload  # noqa: E731
        check_obs(ctx, env, decl, state, 'replay', pl)
        if kind == 'predicate':
            predicate_probes(ctx, env, decl, state, 'replay', pl)
        if kind == 'rejected':
            rejected_actions(ctx, env, state, 'replay', pl)
        acts = [Action[payload['action']]] if payload.get('action') else env.action_space.actions
        for a in acts:
            check_step(ctx, env, decl, state, a, 'replay', pl, 'sweep')
        reset_gv_debug(True)
    elif kind == 'shipped' or 'config' in payload:
        data = dict((n, d) for n, _, d in compose.shipped_configs())[payload['config']]
        drive_shipped(ctx, payload['config'], data, payload.get('seed', 0), payload.get('policy', 'random'),
                      max(1, len(payload.get('actions', [])) + 1), payload.get('debug', True))
