"""C07 — observations are egocentric: invariant under rotating the whole world.
See DESIGN.md §2 C07."""
from .. import boot  # noqa: F401
import numpy as np

from gym_gridverse.agent import Agent
from gym_gridverse.envs import observation_functions as observation_fs
from gym_gridverse import geometry as geometry_mod
from gym_gridverse import grid as grid_mod
from gym_gridverse.geometry import Area, Orientation, Position
from gym_gridverse.grid_object import Color, Key, NoneGridObject
from gym_gridverse.state import State

from .. import enc, gen, obsgen
from ..monitor import call_real, describe_exc, reach

ID = 'C07'
LEVEL = 'exploration'
DEBUG_TOGGLE = True  # runner flips the library debug flag every 97 monitored executions
TECHNIQUE = 'runtime monitoring: relational (metamorphic) monitor over pairs of executions - the observation of a state and of the same world rotated by the harness\' own index arithmetic (1, 2, 3 quarter turns) must have equal deep encodings'
LEVEL_TEXT = ('For every deterministic built-in observation function (direct and from_visibility forms) the observation of a '
              'state is compared with the observation of the world rotated by one, two and three clockwise quarter turns '
              '(grid, position and heading rotated together by plain index arithmetic). All poses of 2x3 and 3x3 grids of '
              'pairwise distinct objects (transparent and with opaque cells) x 36 asymmetric areas are enumerated each run; '
              'random non-square grids up to 9x9 and areas up to extent 5 are sampled.')
LEVEL_NOTE = 'Trusted: obsgen.rotate_state_cw (cell (y,x)->(x,h-1-y), heading turns right). Deterministic functions only.'
SHARDS = {'quick': 4, 'thorough': 16}
BUDGET_S = {'quick': 300, 'thorough': 2400}
RULE = ('case = (state, view area, deterministic observation function) with its three rotated copies. non-trivial = grid or '
        'view not square, or view asymmetric, or at least one opaque cell inside the view; distinct by (function, area, deep '
        'state encoding).')
ASSUMPTIONS = ['rotation of the world defined by index arithmetic in obsgen.rotate_state_cw']
EXHAUSTIVE_NOTE = 'all poses of 2x3 and 3x3 distinct-object grids (2 variants each) x 36 areas within [-2,1]x[-1,2] x 3 functions x 3 rotations'
REQUIRED = {'quick': {'pairs.compared': 20000, 'exhaustive.cases': 5000, 'fn.fully_transparent': 2000,
                      'fn.partially_occluded': 1000, 'fn.raytracing': 2000, 'nonsquare_grid': 1000, 'asymmetric_view': 1000, 'unusual_views': 100}}


def compare(ctx, state, area, name, via_vis):
    def payload():
        return {'state': enc.state_to_json(state), 'area': obsgen.area_json(area), 'fn': name, 'via_visibility': via_vis}
    ok, fn = call_real(obsgen.build_obs, name, area, via_vis)
    if not ok:
        return
    pre = enc.es(state)
    ok, obs0 = call_real(fn, state, rng=np.random.default_rng(0))
    ctx.ev()
    if not ok:
        ctx.violation('egocentric', 'obs.raises', f'{name} raised {describe_exc(obs0)}', 'rot_case', payload())
        return
    if enc.es(state) != pre:
        state = enc.state_from_json(payload()['state']) if False else state
        ctx.violation('egocentric', f'{name}.mutates_state', f'{name} area {obsgen.area_json(area)}: observing modified the state, so the '
                      f'rotated copies are no longer copies of the same world', 'rot_case', payload())
        return
    e0 = enc.es(obs0)
    ctx.hit('fn.' + name)
    if name == 'custom_cone':
        fn = obsgen.build_obs(name, area, via_vis)  # fresh masks for the unrotated world; the same function object is then reused
    h, w = len(state.grid.objects), len(state.grid.objects[0])
    if h != w:
        ctx.hit('nonsquare_grid')
    asym = (-area.xmin != area.xmax) or area.ymax != 0
    if asym:
        ctx.hit('asymmetric_view')
    if h != w or asym or area.height != area.width or any(o.blocks_vision for r in state.grid.objects for o in r):
        ctx.nontrivial((name, via_vis, obsgen.area_json(area), enc.es(state)))
    s = state
    for k in (1, 2, 3):
        s = obsgen.rotate_state_cw(s)
        ok, obs = call_real(fn, s, rng=np.random.default_rng(0))
        ctx.ev()
        ctx.hit('pairs.compared')
        if not ok:
            ctx.violation('egocentric', 'obs.raises_rotated', f'{name} raised {describe_exc(obs)} on the world rotated {k}x',
                          'rot_case', payload())
            return
        e = enc.es(obs)
        if e != e0:
            diff = [(i // e0[0][1], i % e0[0][1], e0[0][2][i], e[0][2][i]) for i in range(len(e0[0][2]))
                    if len(e[0][2]) == len(e0[0][2]) and e0[0][2][i] != e[0][2][i]][:3]
            ctx.violation('egocentric', f'rotation.{name}',
                          f'{name} area {obsgen.area_json(area)} agent {enc.ea(state.agent)[:3]}: observation of the world rotated '
                          f'{k} quarter turn(s) differs: cells {diff} agent {e0[1]} vs {e[1]} shape {e0[0][:2]} vs {e[0][:2]}',
                          'rot_case', payload())
            return
    # four quarter turns give the world back (sanity of the harness rotation itself)
    s = obsgen.rotate_state_cw(s)
    assert enc.es(s) == enc.es(state), 'harness rotation is not of order four'


def areas_exhaustive():
    out = []
    for y0 in (-2, -1, 0):
        for y1 in (0, 1):
            for x0 in (-1, 0):
                for x1 in (0, 1, 2):
                    out.append(Area((y0, y1), (x0, x1)))
    return out


def exhaustive(ctx):
    grids = [obsgen.distinct_grid(2, 3), obsgen.distinct_grid(2, 3, opaque_every=3),
             obsgen.distinct_grid(3, 3), obsgen.distinct_grid(3, 3, opaque_every=4)]
    idx = 0
    for gi, grid in enumerate(grids):
        h, w = len(grid.objects), len(grid.objects[0])
        for y in range(h):
            for x in range(w):
                for heading in gen.ORIENTATIONS:
                    for area in areas_exhaustive():
                        idx += 1
                        if not ctx.mine(idx):
                            continue
                        held = Key(Color.BLUE) if idx % 4 == 0 else NoneGridObject()
                        state = State(grid, Agent(Position(y, x), heading, held))
                        for name in obsgen.DETERMINISTIC:
                            if obsgen.supported(name, area):
                                ctx.hit('exhaustive.cases')
                                compare(ctx, state, area, name, via_vis=(idx % 4 == 1))
                        if idx % 1499 == 0:
                            ctx.sample('exhaustive', {'grid': gi, 'agent': [y, x, heading.name], 'area': obsgen.area_json(area)})


def run(ctx):
    from .. import custom_objects
    custom_objects.enable(curtain=True)  # user-defined object types join the generators' pool (flags, not types, must decide)
    with reach(ctx, [observation_fs.from_visibility, grid_mod.Grid.subgrid, grid_mod.Grid.__mul__,
                     geometry_mod.Transform.__mul__, geometry_mod.Orientation.__mul__]):
        exhaustive(ctx)
        for k in range(ctx.pick(500, 8000)):
            if ctx.out_of_time(0.85):
                ctx.add('random_cases_skipped_for_time')
                break
            rng = gen.rng_for('C07rand', ctx.seed, ctx.shard, k)
            state, area, cat = obsgen.rand_case(rng)
            if k % 4 == 3:
                state = obsgen.history_state(rng)  # reached through the real dynamics; rotated copies are freshly built
                ctx.hit('history_states')
            for name in obsgen.DETERMINISTIC:
                if obsgen.supported(name, area):
                    compare(ctx, state, area, name, via_vis=rng.random() < 0.3)
            if k == 0:
                ctx.sample('random', {'state': enc.render(state), 'area': obsgen.area_json(area)})
            if k % 3 == 0:
                # windows that do not contain the agent's cell (fully transparent only), one-cell windows, and a user-defined
                # egocentric visibility function that reuses its mask array
                compare(ctx, state, obsgen.rand_area_excluding_origin(rng), 'fully_transparent', via_vis=(k % 2 == 0))
                dy, dx = rng.choice([(-1, 0), (1, 0), (0, -1), (0, 1)])
                compare(ctx, state, Area((dy, dy), (dx, dx)), 'fully_transparent', via_vis=False)
                compare(ctx, state, gen.rand_area(rng, maxext=3, require_ymax0=True), 'custom_cone', via_vis=False)
                ctx.hit('unusual_views')
        ctx.extra['exhaustive'] = True


def replay(ctx, kind, payload):
    from .. import custom_objects
    custom_objects.enable(curtain=True)
    compare(ctx, enc.state_from_json(payload['state']), obsgen.area_from_json(payload['area']), payload['fn'],
            payload.get('via_visibility', False))
