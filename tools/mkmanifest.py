#!/usr/bin/env python3
"""Regenerates MANIFEST.json from the metadata of the gvmon.props modules that
exist; properties without a module are listed under not_applicable."""
import importlib
import json
import os
import sys

HERE = os.path.dirname(os.path.dirname(os.path.abspath(__file__)))
sys.path[:0] = [HERE, os.path.join(HERE, 'vendor'), os.environ.get('GV_REPO', '/repo')]
sys.dont_write_bytecode = True

props = [json.loads(l) for l in open(os.path.join(HERE, 'properties.jsonl'))]
checks, na = [], []
for p in props:
    pid = p['id']
    path = os.path.join(HERE, 'gvmon', 'props', pid.lower() + '.py')
    if not os.path.exists(path):
        na.append({'property_id': pid, 'reason': 'within reach of runtime monitoring (see DESIGN.md) but its check is not built yet; not claimed'})
        continue
    mod = importlib.import_module('gvmon.props.' + pid.lower())
    checks.append({
        'property_id': pid,
        'quick_cmd': f'./check {pid} --tier quick',
        'thorough_cmd': f'./check {pid} --tier thorough',
        'evidence_file': f'/verif/evidence/{pid}.json',
        'replay_cmd_template': f'./check {pid} --replay {{path}}',
        'engine': 'gvmon',
        'level_claimed': {
            'category': mod.LEVEL,
            'text': mod.LEVEL_TEXT,
            'design_ref': f'DESIGN.md §2 {pid}',
        },
        'level_note': mod.LEVEL_NOTE,
        'technique': mod.TECHNIQUE,
    })
manifest = {
    'version': 1,
    'setup_cmd': './tools/setup.sh',
    'hooks': {
        'guard': 'GYM_GRIDVERSE_VERIF',
        'enable': 'no source hooks: every observation point is reached by wrapping Python attributes from the harness (checks export GYM_GRIDVERSE_VERIF=1 for uniformity; the repository never reads it)',
        'baseline_off_cmd': './tools/baseline_off.sh',
        'source_commits': [],
        'add_only': True,
    },
    'engines': [{
        'name': 'gvmon',
        'path': '/verif/gvmon',
        'serves_properties': [c['property_id'] for c in checks],
        'kind_free_text': 'runtime monitoring of the real repository code: invariant-at-a-hook wrappers, reference-model and relational (metamorphic) monitors, offline trace checkers, scripted-RNG outcome enumeration, sys.monitoring reach maps; sharded over child interpreters',
    }],
    'checks': checks,
    'not_applicable': na,
    'notes': 'Exit codes of ./check: 0 held on everything observed, 1 unlisted violation (VIOLATION line with replay file), 2 inconclusive (a deciding monitor was not reached, watchdog fired, or harness error). Known findings: KNOWN_FINDINGS.txt. Fixes of genuine defects are "fix:" commits in /repo listed there as fixed:.',
}
with open(os.path.join(HERE, 'MANIFEST.json'), 'w') as f:
    json.dump(manifest, f, indent=1)
print('checks:', [c['property_id'] for c in checks], 'not_applicable:', [n['property_id'] for n in na])
