"""C20 — the gym adapter is a faithful view of the wrapped environment.
See DESIGN.md §2 C20."""
from .. import boot  # noqa: F401
import copy
import os

import gym
import numpy as np

from gym_gridverse import gym as gv_gym
from gym_gridverse.action import Action
from gym_gridverse.envs.yaml.factory import factory_env_from_data, factory_env_from_yaml
from gym_gridverse.outer_env import OuterEnv
from gym_gridverse.representations.observation_representations import make_observation_representation
from gym_gridverse.representations.state_representations import make_state_representation
from gym_gridverse.spaces import ActionSpace

from .. import compose, enc, gen, repgen
from ..monitor import call_real, describe_exc, reach

ID = 'C20'
LEVEL = 'exploration'
DEBUG_TOGGLE = True  # runner flips the library debug flag every 97 monitored executions
TECHNIQUE = 'runtime monitoring: spy on OuterEnv.step recording the executed action; shadow inner environment with the same seed driven functionally, whose converted observations/states, rewards and flags are compared with what GymEnvironment / GymStateWrapper return; advertised gym spaces checked with contains() and against the conversion of the current representation'
LEVEL_TEXT = ('For every shipped config wrapped directly, through the registered entry point with the registered kwargs and through '
              'gym.make(id, disable_env_checker=True): random action-index sequences are run with a spy asserting that index i '
              'executes action_space.actions[i]; a twin inner environment with the same seed is driven through the functional '
              'interface and its converted observation (and state), reward and flag must equal what reset/step return; arrays must '
              'lie in the advertised spaces; representation names are switched mid-run and the advertised space must equal the '
              'conversion of the new representation\'s space; GymStateWrapper must return the state representation, pass the '
              'observation through info and advertise the state space.'
              ' Also: shuffled / truncated action lists with stochastic observation, representation objects created and dropped in between, the state wrapper (also around gym.make results) with observation- and state-representation switches through its own handle.')
LEVEL_NOTE = ('seed(), render() and the default gym.make checker wrappers are outside the statement and broken by the gym version of '
              'this sandbox (0.26 vs <=0.21); seeding goes through inner_env.set_seed.')
SHARDS = {'quick': 4, 'thorough': 16}
BUDGET_S = {'quick': 300, 'thorough': 2400}
RULE = ('case = (config, construction route, seed, action-index sequence, representation switches). non-trivial = sequence with at '
        'least one terminated episode or a representation switch; distinct by (config, route, seed).')
ASSUMPTIONS = ['twin built from the same file with the same seed consumes randomness in the same order (reset+observation, step+observation)']
REQUIRED = {'quick': {'steps.checked': 4000, 'resets.checked': 100, 'index_mapping.checked': 4000, 'switches.checked': 40,
                      'state_wrapper.steps': 500, 'route.direct': 20, 'route.entry_point': 20, 'route.gym_make': 20, 'resets.back_to_back': 100, 'steps.after_terminal': 20}}


def _other_spaces():
    from gym_gridverse.geometry import Shape
    from gym_gridverse.grid_object import Color, Door, Floor, Key, Wall
    from gym_gridverse.spaces import ObservationSpace
    return [ObservationSpace(Shape(3, 3), [Floor, Wall], [Color.NONE]),
            ObservationSpace(Shape(5, 7), [Floor, Wall, Door, Key], [Color.NONE, Color.RED, Color.BLUE, Color.YELLOW])]


OTHER_SPACES = _other_spaces()


def same_dict(a, b):
    return isinstance(a, dict) and set(a) == set(b) and all(
        isinstance(a[k], np.ndarray) and a[k].shape == b[k].shape and a[k].dtype.kind == b[k].dtype.kind and np.array_equal(a[k], b[k])
        for k in b)


def spaces_equal(gs, want):
    try:
        if set(gs.spaces) != set(want.spaces):
            return False
        for k in want.spaces:
            a, b = gs.spaces[k], want.spaces[k]
            if a.shape != b.shape or a.dtype != b.dtype or not np.array_equal(a.low, b.low) or not np.array_equal(a.high, b.high):
                return False
        return True
    except Exception:
        return False


def id_for(name):
    """the gym id whose *name* denotes this file: gv_memory_four_rooms.7x7 -> GV-MemoryFourRooms-7x7-v0
    (derived from the naming convention, not from the mapping under test)"""
    if not name.startswith('gv_') or '.' not in name:
        return None
    family, size = name[3:].split('.')
    return 'GV-' + ''.join(w.capitalize() for w in family.split('_')) + '-' + size + '-v0'


class Spy:
    def __init__(self, outer):
        self.outer = outer
        self.actions = []
        self._orig = outer.step
        try:
            outer.step = self  # instance attribute shadows the method
        except AttributeError:
            # the object does not take instance attributes: shadow the method in a one-off subclass instead
            spy, cls = self, type(outer)
            outer.__class__ = type(cls.__name__, (cls,), {'step': lambda self_, action: spy(action), '__slots__': ()})

    def __call__(self, action):
        self.actions.append(action)
        return self._orig(action)


def varied(name, path, seed):
    """the shipped configuration with its actions listed in another order (indices follow the configured order, not the
    order of the Action enum) and, every other time, a stochastic observation function behind the adapter"""
    rng = gen.rng_for('C20varied', name, seed)
    data = compose.load_yaml(path)
    actions = list(data.get('action_space') or [a.name for a in Action])
    rng.shuffle(actions)
    if rng.random() < 0.3 and len(actions) > 3:
        actions = actions[: rng.randint(3, len(actions) - 1)]
    if 'MOVE_FORWARD' not in actions:
        actions[0] = 'MOVE_FORWARD'
    data['action_space'] = actions
    obs = data['observation_function']
    if seed % 2 == 0 and 'area' in obs:
        data['observation_function'] = {'name': 'stochastic_raytracing', 'area': obs['area']}
    return data


def build(route, name, path, data=None):
    if route == 'varied':
        inner = factory_env_from_data(copy.deepcopy(data))
        outer = OuterEnv(inner, observation_representation=make_observation_representation('default', inner.observation_space),
                         state_representation=(make_state_representation('default', inner.state_space)
                                               if inner.state_space.can_be_represented else None))
        return gv_gym.GymEnvironment(outer), None
    if route == 'direct':
        inner = factory_env_from_yaml(path)
        outer = OuterEnv(inner, observation_representation=make_observation_representation('default', inner.observation_space),
                         state_representation=(make_state_representation('default', inner.state_space)
                                               if inner.state_space.can_be_represented else None))
        return gv_gym.GymEnvironment(outer), None
    env_id = id_for(name)
    if env_id not in gv_gym.STRING_TO_YAML_FILE:
        return None, None
    if route == 'entry_point':
        spec = gym.envs.registry[env_id] if not hasattr(gym.envs.registry, 'env_specs') else gym.envs.registry.env_specs[env_id]
        assert spec.entry_point == 'gym_gridverse.gym:from_factory', spec.entry_point
        return gv_gym.from_factory(**spec.kwargs), env_id
    wrapped = gym.make(env_id, disable_env_checker=True)
    return wrapped, env_id


def run_route(ctx, route, name, path, seed, nsteps):
    payload = {'config': name, 'route': route, 'seed': seed, 'nsteps': nsteps}
    label = f'{name} via {route} seed={seed}'
    data = varied(name, path, seed) if route == 'varied' else None
    ok, built = call_real(build, route, name, path, data)
    if not ok:
        ctx.violation('adapter', f'build.{route}', f'{label}: building raised {describe_exc(built)}', 'gym_case', payload)
        return
    env, env_id = built
    if env is None:
        return
    ctx.hit('route.' + route)
    genv = env.unwrapped if route == 'gym_make' else env
    if not isinstance(genv, gv_gym.GymEnvironment):
        ctx.violation('adapter', 'build.not_a_GymEnvironment', f'{label}: {type(genv).__name__}', 'gym_case', payload)
        return
    # the twin is assembled by hand from the yaml/ copy (independent of the factory and of any caching in it)
    twin = compose.build_env(copy.deepcopy(data) if data is not None else compose.load_yaml(path))
    genv.outer_env.inner_env.set_seed(seed)
    twin.set_seed(seed)
    spy = Spy(genv.outer_env)
    rng = gen.rng_for('C20', name, route, seed)
    rep_name = 'default'
    orep = make_observation_representation(rep_name, twin.observation_space)
    srep_ok = twin.state_space.can_be_represented
    features = set()
    scribble = (seed + len(name)) % 2 == 0

    def check_obs(got, o, what):
        # the expectation comes from a representation object made now, after the adapter has answered (other representation
        # objects come and go during the run, see below)
        want = make_observation_representation(rep_name, twin.observation_space).convert(o)
        if not same_dict(got, want):
            ctx.violation('adapter', f'{what}.observation_differs',
                          f'{label}: {what} returned arrays that are not the {rep_name} representation of the observation of the '
                          f'{"fresh" if what == "reset" else "post-step"} state', 'gym_case', payload)
            return False
        okc, inside = call_real(genv.observation_space.contains, got)
        if not okc or not inside:
            ctx.violation('adapter', f'{what}.outside_advertised_space', f'{label}: {what} observation outside the advertised gym space',
                          'gym_case', payload)
        if scribble:
            # a hostile caller edits the arrays it was handed, in place (normalisation, augmentation ...): what the adapter
            # returns later must still be the current observation (nothing handed out may be shared with a cache)
            for v in got.values():
                if isinstance(v, np.ndarray) and v.flags.writeable:
                    v.fill(97)
            ctx.hit('returned_arrays.scribbled')
        return True

    ok, got = call_real(env.reset)
    if not ok:
        ctx.violation('adapter', 'reset.raises', f'{label}: reset raised {describe_exc(got)}', 'gym_case', payload)
        return
    if isinstance(got, tuple):  # newer gym wrappers may return (obs, info)
        got = got[0]
    s = twin.functional_reset()
    o = twin.functional_observation(s)
    ctx.ev()
    ctx.hit('resets.checked')
    if not check_obs(got, o, 'reset'):
        return
    n_actions = genv.action_space.n
    if n_actions != len(genv.outer_env.action_space.actions):
        ctx.violation('adapter', 'action_space.size', f'{label}: Discrete({n_actions}) vs {len(genv.outer_env.action_space.actions)} actions',
                      'gym_case', payload)
    for t in range(nsteps):
        if t % 23 == 5:  # spontaneous reset(s), sometimes back to back, sometimes right after a reset
            for _ in range(1 + (t % 2)):
                ok, got = call_real(env.reset)
                if not ok:
                    ctx.violation('adapter', 'reset.raises', f'{label}: {describe_exc(got)}', 'gym_case', payload)
                    return
                if isinstance(got, tuple):
                    got = got[0]
                s = twin.functional_reset()
                o = twin.functional_observation(s)
                ctx.hit('resets.checked')
                ctx.hit('resets.back_to_back')
                if not check_obs(got, o, 'reset'):
                    return
                if not same_dict(genv.observation, orep.convert(o)):
                    ctx.violation('adapter', 'observation.property_stale', f'{label}: GymEnvironment.observation is not the observation '
                                  f'of the fresh state after reset', 'gym_case', payload)
                    return
        if t and t % 40 == 0:  # switch representation mid-run
            rep_name = rng.choice(repgen.NAMES)
            genv.set_observation_representation(rep_name)
            orep = make_observation_representation(rep_name, twin.observation_space)
            ctx.hit('switches.checked')
            features.add('switch')
            want_space = gv_gym.outer_space_to_gym_space(orep.space)
            if not spaces_equal(genv.observation_space, want_space):
                ctx.violation('adapter', 'switch.observation_space_not_updated',
                              f'{label}: after set_observation_representation({rep_name}) the advertised space is not the conversion of '
                              f'the new representation\'s space', 'gym_case', payload)
            if srep_ok:
                genv.set_state_representation(rep_name)
                srep = make_state_representation(rep_name, twin.state_space)
                if not spaces_equal(genv.state_space, gv_gym.outer_space_to_gym_space(srep.space)):
                    ctx.violation('adapter', 'switch.state_space_not_updated',
                                  f'{label}: after set_state_representation({rep_name}) the advertised state space is stale', 'gym_case', payload)
                if not same_dict(genv.state, srep.convert(s)):
                    ctx.violation('adapter', 'state.differs', f'{label}: GymEnvironment.state is not the {rep_name} representation of the state',
                                  'gym_case', payload)
        if t % 7 == 3:
            # elsewhere in the process other representation objects are created (other names, other spaces) and dropped
            other = rng.choice([n_ for n_ in repgen.NAMES if n_ != rep_name])
            make_observation_representation(other, OTHER_SPACES[t % len(OTHER_SPACES)])
            if srep_ok:
                make_state_representation(other, twin.state_space)
            ctx.hit('hostile.representations_created')
        i = rng.randrange(n_actions)
        spy.actions.clear()
        # the index may arrive as any integer member of Discrete(n): Python int, numpy scalar, 0-d array
        i_given = [i, np.int64(i), np.int32(i), np.array(i), np.array(i, dtype=np.int8)][t % 5]
        ctx.hit('index_type.' + type(i_given).__name__ + (str(getattr(i_given, 'ndim', '')) if isinstance(i_given, np.ndarray) else ''))
        ok, res = call_real(env.step, i_given)
        ctx.ev()
        ctx.hit('steps.checked')
        if not ok:
            ctx.violation('adapter', 'step.raises', f'{label}: step({i}) raised {describe_exc(res)}', 'gym_case', payload)
            return
        if len(res) == 5:
            got, r, term, trunc, info = res
            done = term
        else:
            got, r, done, info = res
        want_action = twin.action_space.actions[i]
        ctx.hit('index_mapping.checked')
        if spy.actions != [want_action]:
            ctx.violation('adapter', 'step.index_mapping', f'{label}: step({i}) executed {[a.name for a in spy.actions]}, the {i}-th action is '
                          f'{want_action.name}', 'gym_case', payload)
            return
        s, r2, d2 = twin.functional_step(s, want_action)
        o = twin.functional_observation(s)
        if repr(r) != repr(r2) or bool(done) != bool(d2):
            ctx.violation('adapter', 'step.reward_or_flag_differs', f'{label}: step returned ({r!r},{done!r}), inner environment gives ({r2!r},{d2!r})',
                          'gym_case', payload)
        if not check_obs(got, o, 'step'):
            return
        if d2 and t % 3 == 0:
            # keep stepping after a terminal step without a reset (the inner environment allows it): the flag reported by the
            # gym layer must be the inner flag of *that* step
            features.add('step_after_terminal')
            ctx.hit('steps.after_terminal')
            continue
        if d2:
            features.add('episode_end')
            ok, got = call_real(env.reset)
            if not ok:
                ctx.violation('adapter', 'reset.raises', f'{label}: {describe_exc(got)}', 'gym_case', payload)
                return
            if isinstance(got, tuple):
                got = got[0]
            s = twin.functional_reset()
            o = twin.functional_observation(s)
            ctx.hit('resets.checked')
            if not check_obs(got, o, 'reset'):
                return
    if features:
        ctx.nontrivial((name, route, seed))
    ctx.addset('configs', name)


def boot_repo():
    from .. import boot
    return boot.REPO


def state_wrapper(ctx, name, path, seed, nsteps, via_make=False):
    payload = {'config': name, 'route': 'state_wrapper_over_gym_make' if via_make else 'state_wrapper', 'seed': seed, 'nsteps': nsteps}
    label = f'{name} GymStateWrapper{" over gym.make" if via_make else ""} seed={seed}'
    rep_name = repgen.NAMES[seed % 3]
    handles = []
    if via_make:
        # the wrapper around what gym.make returns (gym's own wrappers sit between it and the adapter)
        env_id = id_for(name)
        if env_id not in gv_gym.STRING_TO_YAML_FILE:
            return
        made = gym.make(env_id, disable_env_checker=True)
        genv = made.unwrapped
        inner = genv.outer_env.inner_env
        if not inner.state_space.can_be_represented:
            return
        made.set_state_representation(rep_name)
        made.set_observation_representation(rep_name)
        wrapper = gv_gym.GymStateWrapper(made)
        handles = [('the adapter', genv), ('the environment returned by gym.make', made)]
        ctx.hit('state_wrapper.over_gym_make')
    else:
        inner = factory_env_from_yaml(path)
        if not inner.state_space.can_be_represented:
            return
        outer = OuterEnv(inner, observation_representation=make_observation_representation(rep_name, inner.observation_space),
                         state_representation=make_state_representation(rep_name, inner.state_space))
        genv = gv_gym.GymEnvironment(outer)
        wrapper = gv_gym.GymStateWrapper(genv)
        handles = [('the adapter', genv)]
    twin = compose.build_env(compose.load_yaml(path))
    inner.set_seed(seed)
    twin.set_seed(seed)
    srep = make_state_representation(rep_name, twin.state_space)
    orep = make_observation_representation(rep_name, twin.observation_space)
    if not spaces_equal(wrapper.observation_space, gv_gym.outer_space_to_gym_space(srep.space)):
        ctx.violation('adapter', 'state_wrapper.advertised_space', f'{label}: the wrapper does not advertise the state space', 'gym_case', payload)
    ok, got = call_real(wrapper.reset)
    if not ok:
        ctx.violation('adapter', 'state_wrapper.raises', f'{label}: {describe_exc(got)}', 'gym_case', payload)
        return
    s = twin.functional_reset()
    # GymEnvironment.reset reads the observation (consumes randomness for stochastic observation functions)
    o = twin.functional_observation(s)
    if not same_dict(got, srep.convert(s)):
        ctx.violation('adapter', 'state_wrapper.reset_not_state', f'{label}: reset did not return the state representation', 'gym_case', payload)
        return
    rng = gen.rng_for('C20sw', name, seed)
    for t in range(nsteps):
        if t % 25 == 12:
            # the observation representation is switched through the wrapper's own handle, mid-episode: every handle keeps
            # advertising the space of what is now passed through info
            new = rng.choice(repgen.NAMES)
            ok, res = call_real(wrapper.set_observation_representation, new)
            if not ok:
                ctx.violation('adapter', 'state_wrapper.switch_raises', f'{label}: set_observation_representation({new}) through the wrapper '
                              f'raised {describe_exc(res)}', 'gym_case', payload)
                return
            orep = make_observation_representation(new, twin.observation_space)
            ctx.hit('state_wrapper.switches')
            want_space = gv_gym.outer_space_to_gym_space(orep.space)
            for hname, handle in handles:
                if not spaces_equal(handle.observation_space, want_space):
                    ctx.violation('adapter', 'state_wrapper.switch_observation_space_not_updated',
                                  f'{label}: after set_observation_representation({new}) through the wrapper, {hname} advertises a stale '
                                  f'observation space', 'gym_case', payload)
                    return
        if t % 25 == 20:
            # the state representation is switched too (through the wrapper's handle or on the adapter): what the wrapper
            # advertises as its observation space is the space of the states it returns from now on
            new = rng.choice(repgen.NAMES)
            handle = wrapper if t % 50 == 20 else genv
            ok, res = call_real(handle.set_state_representation, new)
            if not ok:
                ctx.violation('adapter', 'state_wrapper.switch_raises', f'{label}: set_state_representation({new}) raised '
                              f'{describe_exc(res)}', 'gym_case', payload)
                return
            srep = make_state_representation(new, twin.state_space)
            ctx.hit('state_wrapper.state_switches')
            if not spaces_equal(wrapper.observation_space, gv_gym.outer_space_to_gym_space(srep.space)):
                ctx.violation('adapter', 'state_wrapper.switch_state_space_not_updated',
                              f'{label}: after set_state_representation({new}) {"through the wrapper" if handle is wrapper else "on the adapter"} '
                              f'the wrapper still advertises the space of the previous state representation', 'gym_case', payload)
                return
        i = rng.randrange(genv.action_space.n)
        ok, res = call_real(wrapper.step, i)
        ctx.ev()
        ctx.hit('state_wrapper.steps')
        if not ok:
            ctx.violation('adapter', 'state_wrapper.raises', f'{label}: {describe_exc(res)}', 'gym_case', payload)
            return
        got, r, done, info = res[0], res[1], res[2], res[-1]
        s, r2, d2 = twin.functional_step(s, twin.action_space.actions[i])
        o = twin.functional_observation(s)
        if not same_dict(got, srep.convert(s)):
            ctx.violation('adapter', 'state_wrapper.step_not_state', f'{label}: step did not return the representation of the post-step state',
                          'gym_case', payload)
            return
        if not isinstance(info, dict) or not same_dict(info.get('observation'), orep.convert(o)):
            ctx.violation('adapter', 'state_wrapper.info_observation', f'{label}: info["observation"] is not the observation representation',
                          'gym_case', payload)
            return
        okc, inside = call_real(genv.observation_space.contains, info['observation'])
        if not okc or not inside:
            ctx.violation('adapter', 'state_wrapper.info_observation_outside_advertised_space',
                          f'{label}: info["observation"] lies outside the observation space the adapter advertises', 'gym_case', payload)
            return
        if repr(r) != repr(r2) or bool(done) != bool(d2):
            ctx.violation('adapter', 'state_wrapper.reward_or_flag', f'{label}: ({r!r},{done!r}) vs inner ({r2!r},{d2!r})', 'gym_case', payload)
        okc, inside = call_real(wrapper.observation_space.contains, got)
        if not okc or not inside:
            ctx.violation('adapter', 'state_wrapper.outside_advertised_space', f'{label}: state outside the advertised space', 'gym_case', payload)
        if d2 or t % 31 == 7:
            for _ in range(1 if d2 else 2):
                got = wrapper.reset()
                s = twin.functional_reset()
                o = twin.functional_observation(s)
            if not same_dict(got, srep.convert(s)):
                ctx.violation('adapter', 'state_wrapper.reset_not_state', f'{label}: reset did not return the state representation', 'gym_case', payload)
                return


def run(ctx):
    with reach(ctx, [gv_gym.GymEnvironment.step, gv_gym.GymEnvironment.reset, gv_gym.GymEnvironment.set_observation_representation,
                     gv_gym.GymEnvironment.set_state_representation, gv_gym.GymStateWrapper.step, gv_gym.GymStateWrapper.reset,
                     gv_gym.outer_space_to_gym_space, ActionSpace.int_to_action]):
        job = 0
        nsteps = ctx.pick(100, 500)
        for name, path, data in compose.shipped_configs():
            for route in ('direct', 'entry_point', 'gym_make', 'varied'):
                for s in range(ctx.pick(1, 12)):
                    job += 1
                    if not ctx.mine(job):
                        continue
                    if ctx.out_of_time(0.85):
                        ctx.add('routes_skipped_for_time')
                        continue
                    run_route(ctx, route, name, path, 0 if (s == 0 and job % 4 == 0) else ctx.seed * 100 + s, nsteps)
            job += 1
            if ctx.mine(job) and not ctx.out_of_time(0.95):
                state_wrapper(ctx, name, path, ctx.seed * 100 + 7, nsteps)
                state_wrapper(ctx, name, path, ctx.seed * 100 + 8, nsteps, via_make=True)
        ctx.sample('case', {'routes': ['direct', 'entry_point', 'gym_make', 'state_wrapper'], 'nsteps': nsteps,
                            'representation_switch_every': 40})


def replay(ctx, kind, payload):
    configs = {n: p for n, p, d in compose.shipped_configs()}
    if payload['route'] == 'state_wrapper':
        state_wrapper(ctx, payload['config'], configs[payload['config']], payload['seed'], payload['nsteps'],
                      via_make=payload.get('route') == 'state_wrapper_over_gym_make')
    else:
        run_route(ctx, payload['route'], payload['config'], configs[payload['config']], payload['seed'], payload['nsteps'])
