"""C11 — stochastic dynamics obey their rules for every random outcome.
See DESIGN.md §2 C11."""
from .. import boot  # noqa: F401
import itertools

import numpy as np

from gym_gridverse.action import Action
from gym_gridverse.agent import Agent
from gym_gridverse.envs import transition_functions as transition_fs
from gym_gridverse.geometry import Orientation, Position
from gym_gridverse.grid import Grid
from gym_gridverse.grid_object import Color, Exit, Floor, Key, MovingObstacle, Telepod, Wall
from gym_gridverse.state import State

from .. import compose, dyndrive, enc, gen, workloads
from ..monitor import Patch, call_real, describe_exc, raised_by_harness, reach
from ..scripted_rng import ScriptedRng, enumerate_outcomes

ID = 'C11'
LEVEL = 'exploration'
DEBUG_TOGGLE = True  # runner flips the library debug flag every 97 monitored executions
TECHNIQUE = 'runtime monitoring with outcome injection: a scripted stand-in for numpy Generator enumerates every resolution of every random choice of move_obstacles/teleport; order-agnostic local rules (bipartite matching old->new obstacle cells) on each outcome, completeness on the outcome set; seeded real generators on larger layouts and shipped histories'
LEVEL_TEXT = ('For each layout every random outcome of the real move_obstacles / teleport is produced by enumerating the '
              'scripts of a stand-in generator (decision tree walked completely), and each outcome is checked against '
              'order-agnostic rules: obstacle count and all other cells preserved, a perfect matching old->new cells by '
              '"moved to a 4-neighbour that was floor (or vacated)" or "stayed with no always-floor neighbour"; over the '
              'outcome set every floor neighbour of an obstacle is some outcome\'s destination and an isolated obstacle with '
              'a free neighbour never stays. Teleport: from a telepod with partners the destination set equals the partner '
              'set; otherwise nothing changes and nothing raises. All layouts of grids up to 2x3 are enumerated each run.'
              ' Also: palette-built layouts, derived obstacle classes, telepods of all five colours; when a draw cannot be enumerated (or the enumeration is cut off) 300-400 real generators are sampled instead.')
LEVEL_NOTE = ('Trusted: scripted_rng.py reproduces the Generator methods the functions use (choice(int), choice(size, '
              'replace=False), integers, shuffle); an implementation using another method falls back to a seeded real '
              'generator and the completeness part is then reported inconclusive. Uniformity is not claimed.')
SHARDS = {'quick': 4, 'thorough': 16}
BUDGET_S = {'quick': 300, 'thorough': 2400}
RULE = ('case = (layout, action) with all random outcomes enumerated, or one seeded call. non-trivial = layout with at '
        'least one obstacle that has a floor neighbour, resp. agent on a telepod; distinct by layout encoding.')
ASSUMPTIONS = ['every random outcome = every script of the stand-in generator; exhaustive only for the layouts enumerated']
EXHAUSTIVE_NOTE = 'all layouts over {floor, obstacle, wall, exit} of grids 1x1..2x3 (<=4 obstacles) and over {floor, obstacle, wall} of 3x3 grids (<=2 obstacles; thorough: {floor, obstacle, wall, exit}, <=3 obstacles) x all outcomes; all telepod layouts over {floor, red pod, blue pod} of 2x3 grids x agent cell x all outcomes'
REQUIRED = {'quick': {'obstacles.layouts': 2000, 'obstacles.outcomes': 10000, 'obstacles.completeness': 1500,
                      'teleport.layouts': 1000, 'teleport.with_partner': 300, 'teleport.unpaired': 100,
                      'teleport.not_on_pod': 300, 'seeded.obstacles': 1000, 'seeded.teleport': 300,
                      'history.obstacle_calls': 500, 'palette_layouts': 200, 'derived_obstacle_layouts': 100}}

N4 = ((-1, 0), (1, 0), (0, -1), (0, 1))
OBST = ('MovingObstacle', 'Patrol')
MAKERS = {'.': Floor, 'o': MovingObstacle, '#': Wall, 'E': Exit, 'k': lambda: Key(Color.RED),
          'R': lambda: Telepod(Color.RED), 'B': lambda: Telepod(Color.BLUE), 'G': lambda: Telepod(Color.GREEN),
          'N': lambda: Telepod(Color.NONE), 'Y': lambda: Telepod(Color.YELLOW), 'y': lambda: Key(Color.YELLOW)}


SHARED = [False]


def build(layout, agent=(0, 0, Orientation.F)):
    if SHARED[0]:  # palette: one instance per symbol, referenced from every cell showing it (unusual but legal input)
        palette = {c: MAKERS[c]() for row in layout for c in row if c not in '.'}
        rows = [[palette[c] if c in palette else MAKERS[c]() for c in row] for row in layout]
    else:
        rows = [[MAKERS[c]() for c in row] for row in layout]
    return State(Grid(rows), Agent(Position(agent[0], agent[1]), agent[2]))


def cells_of(state):
    return [[enc.eo(o) for o in row] for row in state.grid.objects]


def matching_exists(old, new, floor0, floor_both, h, w):
    """perfect matching old obstacle cells -> new obstacle cells where p->q is
    allowed iff q is a 4-neighbour of p, or q == p and p has no neighbour that
    is floor both before and after the step"""
    new = list(new)
    idx = {q: i for i, q in enumerate(new)}
    adj = {}
    for p in old:
        opts = []
        for dy, dx in N4:
            q = (p[0] + dy, p[1] + dx)
            if q in idx:
                opts.append(idx[q])
        if p in idx and not any((p[0] + dy, p[1] + dx) in floor_both for dy, dx in N4):
            opts.append(idx[p])
        adj[p] = opts
    match = {}

    def augment(p, seen):
        for j in adj[p]:
            if j in seen:
                continue
            seen.add(j)
            if j not in match or augment(match[j], seen):
                match[j] = p
                return True
        return False

    return all(augment(p, set()) for p in old)


def check_obstacle_outcome(ctx, pre_cells, pre_agent, state, label, payload):
    """order-agnostic local rules on one outcome of move_obstacles"""
    h, w = len(pre_cells), len(pre_cells[0])
    post = cells_of(state)
    if enc.ea(state.agent) != pre_agent:
        ctx.violation('obstacles', 'move_obstacles.agent_changed', f'{label}: agent changed {pre_agent} -> {enc.ea(state.agent)}',
                      'obstacle_case', payload)
    if len(post) != h or any(len(r) != w for r in post):
        ctx.violation('obstacles', 'move_obstacles.shape', f'{label}: grid shape changed', 'obstacle_case', payload)
        return None
    old = {(y, x) for y in range(h) for x in range(w) if pre_cells[y][x][0] in OBST}
    new = {(y, x) for y in range(h) for x in range(w) if post[y][x][0] in OBST}
    floor0 = {(y, x) for y in range(h) for x in range(w) if pre_cells[y][x][0] == 'Floor'}
    floor1 = {(y, x) for y in range(h) for x in range(w) if post[y][x][0] == 'Floor'}
    if len(new) != len(old):
        ctx.violation('obstacles', 'move_obstacles.count', f'{label}: {len(old)} obstacles before, {len(new)} after '
                      f'(lost or duplicated)', 'obstacle_case', payload)
    for y in range(h):
        for x in range(w):
            a, b = pre_cells[y][x], post[y][x]
            if a != b and not (a[0] in OBST + ('Floor',) and b[0] in OBST + ('Floor',)):
                ctx.violation('obstacles', 'move_obstacles.other_cell_changed',
                              f'{label}: cell ({y},{x}) changed {a} -> {b}', 'obstacle_case', payload)
    bad_dest = [q for q in new - old if q not in floor0]
    if bad_dest:
        ctx.violation('obstacles', 'move_obstacles.onto_non_floor', f'{label}: obstacle placed on non-floor cell(s) {bad_dest} '
                      f'({[pre_cells[y][x] for y, x in bad_dest]})', 'obstacle_case', payload)
    bad_src = [p for p in old - new if p not in floor1]
    if bad_src:
        ctx.violation('obstacles', 'move_obstacles.vacated_not_floor', f'{label}: vacated cell(s) {bad_src} are not floor afterwards',
                      'obstacle_case', payload)
    if len(new) == len(old) and not matching_exists(old, new, floor0, floor0 & floor1, h, w):
        ctx.violation('obstacles', 'move_obstacles.illegal_move',
                      f'{label}: no assignment old->new obstacle cells by single 4-neighbour moves / forced stays: '
                      f'old {sorted(old)} new {sorted(new)}', 'obstacle_case', payload)
    return old, new, floor0


def obstacle_layout_case(ctx, layout, action=Action.MOVE_FORWARD, limit=2000):
    """all random outcomes of move_obstacles on one layout"""
    fn = transition_fs.transition_function_registry['move_obstacles']
    base = build(layout)
    pre_cells, pre_agent = cells_of(base), enc.ea(base.agent)
    payload = {'layout': [''.join(r) for r in layout], 'action': action.name}
    h, w = len(layout), len(layout[0])
    old = {(y, x) for y in range(h) for x in range(w) if layout[y][x] in 'op'}
    floor0 = {(y, x) for y in range(h) for x in range(w) if layout[y][x] == '.'}
    dests = set()
    stays = {p: 0 for p in old}
    n_out = 0
    unscripted = False

    def run(rng):
        s = build(layout)
        fn(s, action, rng=rng)
        return s

    gen_ = enumerate_outcomes(run, limit)
    complete = True
    while True:
        try:
            rng, res = next(gen_)
        except StopIteration as stop:
            complete = bool(stop.value)
            break
        n_out += 1
        ctx.ev()
        if isinstance(res, Exception):
            if raised_by_harness(res):
                raise res
            ctx.violation('obstacles', 'move_obstacles.raises', f'layout {payload["layout"]}: raised {describe_exc(res)} '
                          f'for script {rng.values}', 'obstacle_case', dict(payload, script=rng.values))
            continue
        unscripted |= bool(rng.unscripted)
        r = check_obstacle_outcome(ctx, pre_cells, pre_agent, res, f'layout {payload["layout"]} script {rng.values}',
                                   dict(payload, script=rng.values))
        if r:
            _, new, _ = r
            dests |= (new - old)
            for p in old:
                if p in new:
                    stays[p] += 1
    ctx.hit('obstacles.layouts')
    ctx.hit('obstacles.outcomes', n_out)
    ctx.add('max_outcomes_per_layout', 0)
    ctx.extra['max_outcomes_per_layout'] = max(ctx.extra.get('max_outcomes_per_layout', 0), n_out)
    if unscripted or not complete:
        # the function draws in a way the scripted generator cannot enumerate (a continuous draw, say), or in so many
        # combinations that the enumeration was cut off: add many real generators - every outcome seen is still checked, and a
        # free neighbour that is a possible destination shows up among 400 samples with overwhelming probability
        ctx.hit('obstacles.sampled_instead_of_enumerated')
        for seed in range(400):
            s_ = build(layout)
            ok, _ = call_real(fn, s_, action, rng=np.random.default_rng(seed))
            n_out += 1
            if not ok:
                ctx.violation('obstacles', 'move_obstacles.raises', f'layout {payload["layout"]}: raised {describe_exc(_)} for seed {seed}',
                              'obstacle_case', dict(payload, seed=seed))
                continue
            r = check_obstacle_outcome(ctx, pre_cells, pre_agent, s_, f'layout {payload["layout"]} seed {seed}', dict(payload, seed=seed))
            if r:
                _, new, _ = r
                dests |= (new - old)
                for p in old:
                    if p in new:
                        stays[p] += 1
    # completeness over the outcome set
    ctx.hit('obstacles.completeness')
    want = {(p[0] + dy, p[1] + dx) for p in old for dy, dx in N4} & floor0
    if want - dests:
        ctx.violation('obstacles', 'move_obstacles.destination_never_chosen',
                      f'layout {payload["layout"]}: free neighbour(s) {sorted(want - dests)} are never a destination over all '
                      f'{n_out} outcomes', 'obstacle_case', payload)
    for p in old:
        isolated = not any(abs(p[0] - q[0]) + abs(p[1] - q[1]) <= 2 for q in old if q != p)
        free = [(p[0] + dy, p[1] + dx) for dy, dx in N4 if (p[0] + dy, p[1] + dx) in floor0]
        if isolated and free and stays[p]:
            ctx.violation('obstacles', 'move_obstacles.stays_with_free_neighbour',
                          f'layout {payload["layout"]}: isolated obstacle at {p} stays in {stays[p]}/{n_out} outcomes although '
                          f'{free} are free', 'obstacle_case', payload)
        if isolated and not free and stays[p] != n_out:
            ctx.violation('obstacles', 'move_obstacles.moves_without_free_neighbour',
                          f'layout {payload["layout"]}: obstacle at {p} has no free neighbour but moved', 'obstacle_case', payload)
    if any((p[0] + dy, p[1] + dx) in floor0 for p in old for dy, dx in N4):
        ctx.nontrivial(('obst', tuple(payload['layout'])))


def all_layouts(h, w, alphabet, max_count, counted):
    for cells in itertools.product(alphabet, repeat=h * w):
        if sum(c in counted for c in cells) <= max_count:
            yield tuple(tuple(cells[y * w:(y + 1) * w]) for y in range(h))


# ------------------------------------------------------------------ teleport


def teleport_case(ctx, layout, agent, action):
    fn = transition_fs.transition_function_registry['teleport']
    y0, x0, o0 = agent
    h, w = len(layout), len(layout[0])
    here = layout[y0][x0]
    partners = {(y, x) for y in range(h) for x in range(w)
                if layout[y][x] == here and (y, x) != (y0, x0)} if here in 'RBGNY' else set()
    payload = {'layout': [''.join(r) for r in layout], 'agent': [y0, x0, o0.name], 'action': action.name}
    label = f'layout {payload["layout"]} agent {payload["agent"]} {action.name}'
    base = build(layout, agent)
    pre = enc.es(base)

    def run(rng):
        s = build(layout, agent)
        fn(s, action, rng=rng)
        return s

    seen = set()
    n = 0
    unscripted = False
    gen_ = enumerate_outcomes(run, 1000)
    complete = True
    while True:
        try:
            rng, res = next(gen_)
        except StopIteration as stop:
            complete = bool(stop.value)
            break
        n += 1
        ctx.ev()
        if isinstance(res, Exception):
            if raised_by_harness(res):
                raise res
            ctx.violation('teleport', 'teleport.raises', f'{label}: raised {describe_exc(res)}', 'teleport_case', payload)
            continue
        unscripted |= bool(rng.unscripted)
        post = enc.es(res)
        if post[0] != pre[0]:
            ctx.violation('teleport', 'teleport.grid_changed', f'{label}: teleport changed the grid', 'teleport_case', payload)
        (py, px, po, pheld) = post[1]
        if po != o0.name or pheld != pre[1][3]:
            ctx.violation('teleport', 'teleport.heading_or_item', f'{label}: heading/held changed {pre[1]} -> {post[1]}',
                          'teleport_case', payload)
        if partners:
            if (py, px) not in partners:
                ctx.violation('teleport', 'teleport.wrong_destination',
                              f'{label}: agent sent to ({py},{px}) which is not one of the partners {sorted(partners)}',
                              'teleport_case', payload)
            seen.add((py, px))
        elif (py, px) != (y0, x0):
            ctx.violation('teleport', 'teleport.displaced', f'{label}: agent displaced to ({py},{px}) without a partner telepod',
                          'teleport_case', payload)
    ctx.hit('teleport.layouts')
    if partners:
        ctx.hit('teleport.with_partner')
        ctx.nontrivial(('tp', tuple(payload['layout']), y0, x0))
        if unscripted or not complete:
            ctx.hit('teleport.sampled_instead_of_enumerated')
            for seed in range(300):
                ok, res = call_real(run, np.random.default_rng(seed))
                if ok:
                    p_ = enc.es(res)[1]
                    if (p_[0], p_[1]) not in partners:
                        ctx.violation('teleport', 'teleport.wrong_destination', f'{label}: agent sent to ({p_[0]},{p_[1]}) (seed {seed}), not '
                                      f'one of the partners {sorted(partners)}', 'teleport_case', payload)
                    seen.add((p_[0], p_[1]))
        if seen != partners:
            ctx.violation('teleport', 'teleport.partner_never_chosen',
                          f'{label}: partners {sorted(partners - seen)} are never chosen over all {n} outcomes', 'teleport_case',
                          payload)
    elif here in 'RBGNY':
        ctx.hit('teleport.unpaired')
        ctx.nontrivial(('tp', tuple(payload['layout']), y0, x0))
    else:
        ctx.hit('teleport.not_on_pod')


# ------------------------------------------------------------------ seeded real generators


def rand_layout(rng, hmax, wmax, alphabet, weights, max_o, o='o'):
    h, w = rng.randint(1, hmax), rng.randint(1, wmax)
    cells = [rng.choices(alphabet, weights)[0] for _ in range(h * w)]
    idx = [i for i, c in enumerate(cells) if c == o]
    rng.shuffle(idx)
    for i in idx[max_o:]:
        cells[i] = '.'
    return tuple(tuple(cells[y * w:(y + 1) * w]) for y in range(h))


def seeded(ctx, n):
    fn_o = transition_fs.transition_function_registry['move_obstacles']
    fn_t = transition_fs.transition_function_registry['teleport']
    for k in range(n):
        rng = gen.rng_for('C11seeded', ctx.seed, ctx.shard, k)
        layout = rand_layout(rng, 6, 6, '.o#Ek', [5, 3, 1, 1, 1], 5)
        seed = rng.randrange(2**32)
        s = build(layout, (0, 0, rng.choice(gen.ORIENTATIONS)))
        pre_cells, pre_agent = cells_of(s), enc.ea(s.agent)
        action = rng.choice(list(Action))
        payload = {'layout': [''.join(r) for r in layout], 'action': action.name, 'seed': seed,
                   'agent': [0, 0, s.agent.orientation.name]}
        ok, res = call_real(fn_o, s, action, rng=np.random.default_rng(seed))
        ctx.ev()
        ctx.hit('seeded.obstacles')
        if not ok:
            ctx.violation('obstacles', 'move_obstacles.raises', f'seeded {payload}: raised {describe_exc(res)}', 'obstacle_case', payload)
        else:
            check_obstacle_outcome(ctx, pre_cells, pre_agent, s, f'seeded layout {payload["layout"]} seed {seed}', payload)
        if k % 3 == 0:
            layout = rand_layout(rng, 5, 5, '.RBG#', [6, 2, 2, 1, 1], 4, o='R')
            h, w = len(layout), len(layout[0])
            pods = [(y, x) for y in range(h) for x in range(w) if layout[y][x] in 'RBG']
            ay, ax = rng.choice(pods) if pods and rng.random() < 0.7 else (rng.randrange(h), rng.randrange(w))
            agent = (ay, ax, rng.choice(gen.ORIENTATIONS))
            s = build(layout, agent)
            pre = enc.es(s)
            here = layout[ay][ax]
            partners = {(y, x) for (y, x) in pods if layout[y][x] == here and (y, x) != (ay, ax)} if here in 'RBGNY' else set()
            payload = {'layout': [''.join(r) for r in layout], 'agent': [ay, ax, agent[2].name], 'action': action.name, 'seed': seed}
            ok, res = call_real(fn_t, s, action, rng=np.random.default_rng(seed))
            ctx.ev()
            ctx.hit('seeded.teleport')
            if not ok:
                ctx.violation('teleport', 'teleport.raises', f'seeded {payload}: raised {describe_exc(res)}', 'teleport_case', payload)
                continue
            post = enc.es(s)
            p = (post[1][0], post[1][1])
            if post[0] != pre[0] or post[1][2:] != pre[1][2:]:
                ctx.violation('teleport', 'teleport.grid_changed', f'seeded {payload}: grid/heading/held changed', 'teleport_case', payload)
            if partners and p not in partners:
                ctx.violation('teleport', 'teleport.wrong_destination', f'seeded {payload}: sent to {p}, partners {sorted(partners)}',
                              'teleport_case', payload)
            if not partners and p != (ay, ax):
                ctx.violation('teleport', 'teleport.displaced', f'seeded {payload}: displaced to {p} without partner', 'teleport_case', payload)


def install_history_hooks(ctx, patch):
    """observe move_obstacles / teleport inside the shipped environments"""
    reg = transition_fs.transition_function_registry

    def wrap_obstacles(orig):
        def wrapper(state, action, *a, **k):
            pre_cells, pre_agent = cells_of(state), enc.ea(state.agent)
            payload = {'state': enc.state_to_json(state), 'action': action.name}
            result = orig(state, action, *a, **k)
            ctx.hit('history.obstacle_calls')
            check_obstacle_outcome(ctx, pre_cells, pre_agent, state, 'history', payload)
            return result
        return wrapper

    def wrap_teleport(orig):
        def wrapper(state, action, *a, **k):
            pre = enc.es(state)
            y0, x0 = state.agent.position.y, state.agent.position.x
            here = state.grid[y0, x0]
            partners = set()
            if isinstance(here, Telepod):
                partners = {(y, x) for y, row in enumerate(state.grid.objects) for x, o in enumerate(row)
                            if isinstance(o, Telepod) and o.color is here.color and (y, x) != (y0, x0)}
            payload = {'state': enc.state_to_json(state), 'action': action.name}
            result = orig(state, action, *a, **k)
            ctx.hit('history.teleport_calls')
            post = enc.es(state)
            p = (post[1][0], post[1][1])
            if post[0] != pre[0] or post[1][2:] != pre[1][2:]:
                ctx.violation('teleport', 'teleport.grid_changed', 'history: teleport changed grid/heading/held', 'teleport_state', payload)
            if partners:
                ctx.hit('history.teleported')
                if p not in partners:
                    ctx.violation('teleport', 'teleport.wrong_destination', f'history: sent to {p}, partners {sorted(partners)}',
                                  'teleport_state', payload)
            elif p != (y0, x0):
                ctx.violation('teleport', 'teleport.displaced', f'history: displaced to {p} without partner', 'teleport_state', payload)
            return result
        return wrapper

    patch.registry_and_module(reg, transition_fs, 'move_obstacles', wrap_obstacles)
    patch.registry_and_module(reg, transition_fs, 'teleport', wrap_teleport)


def run(ctx):
    from .. import custom_objects
    MAKERS['p'] = custom_objects.Patrol  # a moving obstacle of a user-defined derived class
    ctx.extra['exhaustive'] = True
    with reach(ctx, [transition_fs.move_obstacles, transition_fs.teleport]):
        # exhaustive obstacle layouts
        shapes = [(1, 1), (1, 2), (2, 1), (1, 3), (3, 1), (2, 2), (2, 3)]
        idx = 0
        for (h, w) in shapes:
            for layout in all_layouts(h, w, '.o#E', 4, 'o'):
                idx += 1
                if not ctx.mine(idx):
                    continue
                if not any('o' in row for row in layout):
                    continue
                obstacle_layout_case(ctx, layout, Action.MOVE_FORWARD if idx % 2 else Action.ACTUATE)
                if idx % 997 == 0:
                    ctx.sample('obstacle_layout', {'layout': [''.join(r) for r in layout]})
        if True:
            for layout in all_layouts(3, 3, '.o#E' if ctx.thorough else '.o#', 3 if ctx.thorough else 2, 'o'):
                idx += 1
                if not ctx.mine(idx) or not any('o' in row for row in layout):
                    continue
                if ctx.out_of_time(0.7):
                    ctx.add('layouts_3x3_skipped_for_time')
                    ctx.extra['exhaustive_3x3'] = False
                    break
                obstacle_layout_case(ctx, layout)
        # random larger layouts, all outcomes (bounded)
        for k in range(ctx.pick(3000, 40000)):
            if ctx.out_of_time(0.45):  # an implementation with many more outcomes per step makes every layout slower
                ctx.add('random_layouts_skipped_for_time')
                break
            rng = gen.rng_for('C11rand', ctx.seed, ctx.shard, k)
            layout = rand_layout(rng, 5, 5, '.o#Ek', [5, 2, 1, 1, 1], 4)
            if any('o' in row for row in layout):
                obstacle_layout_case(ctx, layout, rng.choice(list(Action)), limit=1000)
        # exhaustive telepod layouts on 2x3
        for layout in all_layouts(2, 3, '.RB', 4, 'RB'):
            idx += 1
            if not ctx.mine(idx):
                continue
            for y in range(2):
                for x in range(3):
                    action = list(Action)[(idx + y + x) % 8]
                    teleport_case(ctx, layout, (y, x, gen.ORIENTATIONS[(idx + x) % 4]), action)
            if idx % 211 == 0:
                ctx.sample('telepod_layout', {'layout': [''.join(r) for r in layout]})
        for k in range(ctx.pick(400, 10000)):
            SHARED[0] = (k % 3 == 2)
            if SHARED[0]:
                ctx.hit('palette_layouts')
            rng = gen.rng_for('C11tp', ctx.seed, ctx.shard, k)
            # telepods of every colour incl. the colourless one (first and last member of the palette), coloured keys and exits
            # (colourless like the colourless telepod) among them
            layout = (rand_layout(rng, 4, 4, '.RBG#', [5, 2, 2, 2, 1], 5, o='R') if k % 2 else
                      rand_layout(rng, 4, 4, '.NYRBG#kyE', [5, 2, 2, 1, 1, 1, 1, 1, 1, 1], 6, o='N'))
            h, w = len(layout), len(layout[0])
            for action in Action:
                teleport_case(ctx, layout, (rng.randrange(h), rng.randrange(w), rng.choice(gen.ORIENTATIONS)), action)
        SHARED[0] = False
        for k in range(ctx.pick(300, 3000)):  # obstacle layouts from a palette too
            SHARED[0] = True
            if ctx.out_of_time(0.7):
                break
            rng = gen.rng_for('C11pal', ctx.seed, ctx.shard, k)
            layout = rand_layout(rng, 4, 4, '.o#Ek', [5, 3, 1, 1, 1], 4)
            if any('o' in row for row in layout):
                ctx.hit('palette_layouts')
                obstacle_layout_case(ctx, layout, rng.choice(list(Action)), limit=600)
        SHARED[0] = False
        for k in range(ctx.pick(300, 3000)):  # obstacles of a derived class, alone or mixed with plain ones
            if ctx.out_of_time(0.8):
                break
            rng = gen.rng_for('C11derived', ctx.seed, ctx.shard, k)
            layout = rand_layout(rng, 4, 4, '.p#Eo' if k % 2 else '.p#E', [5, 3, 1, 1, 2][: 5 if k % 2 else 4], 4, o='p')
            if any('p' in row or 'o' in row for row in layout):
                ctx.hit('derived_obstacle_layouts')
                obstacle_layout_case(ctx, layout, rng.choice(list(Action)), limit=600)
        seeded(ctx, ctx.pick(6000, 300000))
        with Patch() as patch:
            install_history_hooks(ctx, patch)
            dyndrive.shipped_histories(ctx, 'C11hist', ['dynamic_obstacles', 'teleport'], ctx.pick(2, 40),
                                       ctx.pick(200, 600), None, policies=['random', 'edge_seeking'])


def replay(ctx, kind, payload):
    from .. import custom_objects
    MAKERS['p'] = custom_objects.Patrol
    if kind == 'obstacle_case':
        layout = tuple(tuple(r) for r in payload['layout'])
        if 'seed' in payload:
            a = payload.get('agent', [0, 0, 'FORWARD'])
            s = build(layout, (a[0], a[1], Orientation[a[2]]))
            pre_cells, pre_agent = cells_of(s), enc.ea(s.agent)
            ok, res = call_real(transition_fs.transition_function_registry['move_obstacles'], s, Action[payload['action']],
                                rng=np.random.default_rng(payload['seed']))
            ctx.ev()
            if not ok:
                ctx.violation('obstacles', 'move_obstacles.raises', describe_exc(res), kind, payload)
            else:
                check_obstacle_outcome(ctx, pre_cells, pre_agent, s, 'replay', payload)
        else:
            obstacle_layout_case(ctx, layout, Action[payload['action']])
    elif kind == 'teleport_case':
        layout = tuple(tuple(r) for r in payload['layout'])
        a = payload['agent']
        for shared in (False, True):
            SHARED[0] = shared
            teleport_case(ctx, layout, (a[0], a[1], Orientation[a[2]]), Action[payload['action']])
        SHARED[0] = False
    elif kind == 'teleport_state':
        with Patch() as patch:
            install_history_hooks(ctx, patch)
            s = enc.state_from_json(payload['state'])
            for seed in range(20):
                call_real(transition_fs.transition_function_registry['teleport'], enc.state_from_json(payload['state']),
                          Action[payload['action']], rng=np.random.default_rng(seed))
                ctx.ev()
