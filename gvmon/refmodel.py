"""Independent reference models of the documented behaviour, written from the
property statements with plain tables and list arithmetic.  They do not call
geometry.py, transition_functions.py, reward_functions.py or fast_copy; they
only *read* attributes of grid objects (type, flags, colour, door status).
"""
from . import boot  # noqa: F401
from collections import deque

from gym_gridverse.action import Action
from gym_gridverse.geometry import Orientation
from gym_gridverse.grid_object import (
    Beacon,
    Box,
    Door,
    Exit,
    Floor,
    Key,
    MovingObstacle,
    NoneGridObject,
    Wall,
)

from . import enc

F, R, B, L = Orientation.F, Orientation.R, Orientation.B, Orientation.L
FRONT = {F: (-1, 0), R: (0, 1), B: (1, 0), L: (0, -1)}
RIGHT = {F: (0, 1), R: (1, 0), B: (0, -1), L: (-1, 0)}
TURN_LEFT = {F: L, L: B, B: R, R: F}
TURN_RIGHT = {F: R, R: B, B: L, L: F}
MOVES = (Action.MOVE_FORWARD, Action.MOVE_BACKWARD, Action.MOVE_LEFT, Action.MOVE_RIGHT)


def move_vector(heading, action):
    fy, fx = FRONT[heading]
    ry, rx = RIGHT[heading]
    return {
        Action.MOVE_FORWARD: (fy, fx),
        Action.MOVE_BACKWARD: (-fy, -fx),
        Action.MOVE_RIGHT: (ry, rx),
        Action.MOVE_LEFT: (-ry, -rx),
    }[action]


class RefState:
    """the harness' own mutable copy of a state (objects rebuilt through JSON,
    not through the repository's copy)"""

    def __init__(self, state):
        j = enc.state_to_json(state)
        self.rows = [[enc.obj_from_json(o) for o in row] for row in j['grid']]
        self.y = j['agent']['y']
        self.x = j['agent']['x']
        self.heading = Orientation[j['agent']['o']]
        self.held = enc.obj_from_json(j['agent']['held'])
        self.h = len(self.rows)
        self.w = len(self.rows[0])

    def inside(self, y, x):
        return 0 <= y < self.h and 0 <= x < self.w

    def front(self):
        dy, dx = FRONT[self.heading]
        return self.y + dy, self.x + dx

    def encoding(self):
        return (
            (self.h, self.w, tuple(enc.eo(o) for row in self.rows for o in row)),
            (self.y, self.x, self.heading.name, enc.eo(self.held)),
        )


def holding(m):
    return not isinstance(m.held, NoneGridObject)


def ref_move_agent(m, action):
    if action not in MOVES:
        return
    dy, dx = move_vector(m.heading, action)
    y, x = m.y + dy, m.x + dx
    if m.inside(y, x) and not m.rows[y][x].blocks_movement:
        m.y, m.x = y, x


def ref_turn_agent(m, action):
    if action is Action.TURN_LEFT:
        m.heading = TURN_LEFT[m.heading]
    elif action is Action.TURN_RIGHT:
        m.heading = TURN_RIGHT[m.heading]


def ref_pickndrop(m, action):
    if action is not Action.PICK_N_DROP:
        return
    y, x = m.front()
    if not m.inside(y, x):
        return
    obj = m.rows[y][x]
    if obj.holdable:
        if holding(m):
            m.rows[y][x], m.held = m.held, obj  # swap
        else:
            m.rows[y][x], m.held = Floor(), obj  # pick
    elif type(obj) is Floor and holding(m):
        m.rows[y][x], m.held = m.held, NoneGridObject()  # drop


def ref_actuate_door(m, action):
    if action is not Action.ACTUATE:
        return
    y, x = m.front()
    if not m.inside(y, x):
        return
    door = m.rows[y][x]
    if not isinstance(door, Door):
        return
    if door.state is Door.Status.CLOSED:
        door.state = Door.Status.OPEN
    elif door.state is Door.Status.LOCKED:
        if isinstance(m.held, Key) and m.held.color is door.color:
            door.state = Door.Status.OPEN


def ref_actuate_box(m, action):
    if action is not Action.ACTUATE:
        return
    y, x = m.front()
    if not m.inside(y, x):
        return
    box = m.rows[y][x]
    if isinstance(box, Box):
        m.rows[y][x] = box.content


REF_TRANSITIONS = {
    'move_agent': ref_move_agent,
    'turn_agent': ref_turn_agent,
    'pickndrop': ref_pickndrop,
    'actuate_door': ref_actuate_door,
    'actuate_box': ref_actuate_box,
}
DETERMINISTIC = set(REF_TRANSITIONS)


def ref_chain(state, names, action):
    """predicted deep encoding of the next state for a chain of deterministic
    built-in transition functions"""
    m = RefState(state)
    for n in names:
        REF_TRANSITIONS[n](m, action)
    return m.encoding()


# ------------------------------------------------------------------ view geometry (C05)


def view_to_world(agent_y, agent_x, heading, area_ys, area_xs, i, j):
    """world cell shown at view cell (i, j) of area [(y0,y1),(x0,x1)] placed at
    the agent's pose: agent + (-(y0+i))*front + (x0+j)*right"""
    ry, rx = area_ys[0] + i, area_xs[0] + j
    fy, fx = FRONT[heading]
    gy, gx = RIGHT[heading]
    return agent_y + (-ry) * fy + rx * gy, agent_x + (-ry) * fx + rx * gx


# ------------------------------------------------------------------ rewards / termination (C12)


def _agent_cell(s):
    return s.grid.objects[s.agent.position.y][s.agent.position.x]


def _cells(s):
    for y, row in enumerate(s.grid.objects):
        for x, o in enumerate(row):
            yield y, x, o


def _attempted_target(s, action):
    """cell targeted by the attempted move (None for non-move actions)"""
    if action not in MOVES:
        return None
    dy, dx = move_vector(s.agent.orientation, action)
    return s.agent.position.y + dy, s.agent.position.x + dx


def _bumps_wall(s, action):
    t = _attempted_target(s, action)
    if t is None:
        return False
    y, x = t
    h, w = len(s.grid.objects), len(s.grid.objects[0])
    return 0 <= y < h and 0 <= x < w and isinstance(s.grid.objects[y][x], Wall)


def _unique_pos(s, T):
    ps = [(y, x) for y, x, o in _cells(s) if isinstance(o, T)]
    assert len(ps) == 1, 'generator must honour the unique-object precondition'
    return ps[0]


def _dist(name, p, q):
    dy, dx = p[0] - q[0], p[1] - q[1]
    if name == 'euclidean':
        return (dy * dy + dx * dx) ** 0.5
    return abs(dy) + abs(dx)


def _bfs_dist(s, src, dst):
    """shortest 4-connected path length over cells that do not block movement
    (source cell itself always admitted), inf if unreachable"""
    h, w = len(s.grid.objects), len(s.grid.objects[0])
    seen = {src: 0}
    q = deque([src])
    while q:
        y, x = q.popleft()
        if (y, x) == dst:
            return float(seen[(y, x)])
        for dy, dx in ((-1, 0), (1, 0), (0, -1), (0, 1)):
            ny, nx = y + dy, x + dx
            if 0 <= ny < h and 0 <= nx < w and (ny, nx) not in seen and not s.grid.objects[ny][nx].blocks_movement:
                seen[(ny, nx)] = seen[(y, x)] + 1
                q.append((ny, nx))
    return float('inf')


def _sign_reward(d_prev, d_next, closer, further):
    return closer if d_next < d_prev else further if d_next > d_prev else 0.0


def ref_reward(spec, types, s, action, ns):
    """documented value of a built-in reward component on (s, action, ns)"""
    n = spec['name']
    g = spec.get
    if n == 'living_reward':
        return g('reward', -1.0)
    if n == 'reach_exit':
        return g('reward_on', 1.0) if isinstance(_agent_cell(ns), Exit) else g('reward_off', 0.0)
    if n == 'overlap':
        return g('reward_on', 1.0) if isinstance(_agent_cell(ns), types[spec['object_type']]) else g('reward_off', 0.0)
    if n == 'bump_moving_obstacle':
        return g('reward', -1.0) if isinstance(_agent_cell(ns), MovingObstacle) else 0.0
    if n == 'bump_into_wall':
        return g('reward', -1.0) if _bumps_wall(s, action) else 0.0
    if n == 'proportional_to_distance':
        T = types[spec['object_type']]
        p = (ns.agent.position.y, ns.agent.position.x)
        return g('reward_per_unit_distance', -1.0) * _dist(g('distance_function', 'manhattan'), p, _unique_pos(ns, T))
    if n == 'getting_closer':
        T = types[spec['object_type']]
        dn = g('distance_function', 'manhattan')
        d0 = _dist(dn, (s.agent.position.y, s.agent.position.x), _unique_pos(s, T))
        d1 = _dist(dn, (ns.agent.position.y, ns.agent.position.x), _unique_pos(ns, T))
        return _sign_reward(d0, d1, g('reward_closer', 1.0), g('reward_further', -1.0))
    if n == 'getting_closer_shortest_path':
        T = types[spec['object_type']]
        d0 = _bfs_dist(s, _unique_pos(s, T), (s.agent.position.y, s.agent.position.x))
        d1 = _bfs_dist(ns, _unique_pos(ns, T), (ns.agent.position.y, ns.agent.position.x))
        return _sign_reward(d0, d1, g('reward_closer', 1.0), g('reward_further', -1.0))
    if n == 'actuate_door':
        if action is not Action.ACTUATE:
            return 0.0
        dy, dx = FRONT[s.agent.orientation]
        y, x = s.agent.position.y + dy, s.agent.position.x + dx
        h, w = len(s.grid.objects), len(s.grid.objects[0])
        if not (0 <= y < h and 0 <= x < w):
            return 0.0
        d0 = s.grid.objects[y][x]
        if not isinstance(d0, Door):
            return 0.0
        nh, nw = len(ns.grid.objects), len(ns.grid.objects[0])
        if not (0 <= y < nh and 0 <= x < nw):
            return 0.0
        d1 = ns.grid.objects[y][x]
        if not isinstance(d1, Door):
            return 0.0
        o0 = d0.state is Door.Status.OPEN
        o1 = d1.state is Door.Status.OPEN
        return g('reward_open', 1.0) if (not o0 and o1) else g('reward_close', -1.0) if (o0 and not o1) else 0.0
    if n == 'pickndrop':
        T = types[spec['object_type']]
        a, b = isinstance(s.agent.grid_object, T), isinstance(ns.agent.grid_object, T)
        return g('reward_pick', 1.0) if (not a and b) else g('reward_drop', -1.0) if (a and not b) else 0.0
    if n == 'reach_exit_memory':
        cell = _agent_cell(ns)
        if not isinstance(cell, Exit):
            return 0.0
        beacon = next(o for _, _, o in _cells(ns) if isinstance(o, Beacon))
        return g('reward_good', 1.0) if cell.color is beacon.color else g('reward_bad', -1.0)
    if n == 'reduce_sum':
        return sum(ref_reward(p, types, s, action, ns) for p in spec['reward_functions'])
    raise KeyError(n)


def ref_terminating(spec, types, s, action, ns):
    n = spec['name']
    if n == 'reach_exit':
        return isinstance(_agent_cell(ns), Exit)
    if n == 'overlap':
        return isinstance(_agent_cell(ns), types[spec['object_type']])
    if n == 'bump_moving_obstacle':
        return isinstance(_agent_cell(ns), MovingObstacle)
    if n == 'bump_into_wall':
        return _bumps_wall(s, action)
    if n == 'reduce_any':
        return any(ref_terminating(p, types, s, action, ns) for p in spec['terminating_functions'])
    if n == 'reduce_all':
        return all(ref_terminating(p, types, s, action, ns) for p in spec['terminating_functions'])
    raise KeyError(n)
