"""C16 — numeric representations are faithful: lossless, positional and
well-separated.  See DESIGN.md §2 C16."""
from .. import boot  # noqa: F401
import itertools

import numpy as np

from gym_gridverse.agent import Agent
from gym_gridverse.geometry import Orientation, Position, Shape
from gym_gridverse.grid import Grid
from gym_gridverse.grid_object import (
    Color,
    Door,
    Floor,
    GridObject,
    Hidden,
    NoneGridObject,
    grid_object_registry,
)
from gym_gridverse.representations import observation_representations as orep_mod
from gym_gridverse.representations import representation as rep_mod
from gym_gridverse.representations import state_representations as srep_mod
from gym_gridverse.representations.observation_representations import make_observation_representation
from gym_gridverse.representations.state_representations import make_state_representation
from gym_gridverse.spaces import ObservationSpace, StateSpace

from .. import compose, enc, gen, repgen
from ..monitor import call_real, describe_exc, reach

ID = 'C16'
LEVEL = 'exploration'
DEBUG_TOGGLE = True  # runner flips the library debug flag every 97 monitored executions
TECHNIQUE = 'runtime monitoring: pairwise injectivity check over the complete object set of each space, single-perturbation neighbours of whole states/observations, positional-independence and item-vs-grid consistency checks, agent-marker check, and per-channel image sets (disjointness, compactness) computed from the real convert()'
LEVEL_TEXT = ('For each space and each representation the per-object encoding is computed for every (type, status, colour) object of '
              'the space (exhaustive per space) and compared pairwise: equal encodings iff equal objects; the grid entry at (y,x) '
              'must equal the item-channel encoding of the same object, be the same at every cell and not change when another '
              'cell changes; the agent marker must be exactly one 1 at the agent\'s cell; single perturbations of a member (one '
              'cell, agent cell, heading, held item) must change the representation, equal members must have equal '
              'representations and hashes; default = (registry index, status index, colour value) by the harness\' own tables; '
              'no-overlap channel images pairwise disjoint; compact images disjoint with union {0..N-1}.'
              ' Also: members differing only in box contents (== by the library: equal hashes and representations, and conversely), element-wise equality of representations, single-row / single-column worlds, declared lists with repeats / implicit types.')
LEVEL_NOTE = 'Trusted: enc.eo as identity of objects; own tables for status/colour values. Spaces sampled in quick, all type subsets in thorough.'
SHARDS = {'quick': 4, 'thorough': 16}
BUDGET_S = {'quick': 300, 'thorough': 2400}
RULE = ('case = (space, representation, object pair | perturbed member pair | channel image). non-trivial = pair of distinct '
        'objects differing in exactly one of type/status/colour, or a perturbed member; distinct by (space, representation, pair).')
ASSUMPTIONS = ['objects of a space = declared types x all their statuses x declared colours (+ NoneGridObject as held item, + Hidden in observations)']
EXHAUSTIVE_NOTE = 'all objects of each generated space pairwise (per space exhaustive)'
REQUIRED = {'quick': {'box_members.pairs': 200, 'pairs.objects': 20000, 'neighbours.state': 2000, 'neighbours.observation': 1500, 'positional': 3000,
                      'agent_marker': 1000, 'default.triple': 1000, 'channels.no_overlap': 50, 'channels.compact': 50,
                      'equal_members': 500, 'mutated_members': 500, 'mutated_members.dynamics': 50, 'spaces.with_custom_types': 10}}
STATUS_INDEX = {Door.Status.OPEN: 0, Door.Status.CLOSED: 1, Door.Status.LOCKED: 2}
COLOR_VALUE = {Color.NONE: 0, Color.RED: 1, Color.GREEN: 2, Color.BLUE: 3, Color.YELLOW: 4}


def own_triple(o):
    t = list(grid_object_registry).index(type(o))
    s = STATUS_INDEX[o.state] if isinstance(o, Door) else getattr(o, 'k', 0)
    return (t, s, COLOR_VALUE[o.color])


def flat(d):
    return tuple((k, d[k].shape, d[k].tobytes(), str(d[k].dtype.kind)) for k in sorted(d))


def object_level(ctx, spec, name, rep, objs, which, payload):
    """pairwise injectivity on the item channel + default triple + channel images"""
    h, w = (spec['shape'] if which == 'state' else spec['view'])
    encs = []
    filler = Floor() if any(type(x) is Floor for x in objs) else next(
        (x for x in objs if type(x) not in (NoneGridObject, Hidden)), Hidden() if which == 'observation' else NoneGridObject())
    for o in objs:
        rows = [[repgen.copy_obj(filler) for _ in range(w)] for _ in range(h)]
        via_grid = type(o) is Hidden  # Hidden only ever sits in grid cells, NoneGridObject only in the hand
        held = NoneGridObject() if via_grid else repgen.copy_obj(o)
        if via_grid:
            rows[0][0] = repgen.copy_obj(o)
        if which == 'state':
            m = repgen.make_state(rows, h - 1, w - 1, Orientation.F, held)
        else:
            m = repgen.make_observation(rows, (h, w), held)
        ok, d = call_real(rep.convert, m)
        ctx.ev()
        if not ok:
            ctx.violation('faithful', 'convert.raises', f'{spec} {name} {which}: {describe_exc(d)}', 'obj_case', payload)
            return None
        encs.append(tuple(int(v) for v in (d['grid'][0, 0] if via_grid else d['item'])))
    for (i, a), (j, b) in itertools.combinations(enumerate(objs), 2):
        ctx.hit('pairs.objects')
        ctx.ev()
        same_obj = enc.eo(a) == enc.eo(b)
        same_enc = encs[i] == encs[j]
        if same_obj != same_enc:
            ctx.violation('faithful', f'{name}.not_injective' if same_enc else f'{name}.not_functional',
                          f'{spec} {name} {which}: objects {enc.eo(a)} and {enc.eo(b)} are encoded {encs[i]} and {encs[j]}',
                          'obj_case', dict(payload, a=enc.obj_to_json(a), b=enc.obj_to_json(b)))
        # the library's own equality (the statement's "equal") must coincide with equality of representations, and
        # equal objects must hash alike
        try:
            lib_eq = bool(a == b) and bool(b == a)
            one_sided = bool(a == b) != bool(b == a)
        except Exception:
            lib_eq, one_sided = same_obj, False
        if one_sided or lib_eq != same_enc:
            ctx.violation('faithful', f'{name}.equality_vs_representation',
                          f'{spec} {name} {which}: objects {enc.eo(a)} and {enc.eo(b)}: library == says {bool(a == b)}/{bool(b == a)} but '
                          f'their encodings are {"equal" if same_enc else "different"} ({encs[i]} vs {encs[j]})', 'obj_case',
                          dict(payload, a=enc.obj_to_json(a), b=enc.obj_to_json(b)))
        elif lib_eq and hash(a) != hash(b):
            ctx.violation('faithful', 'hash.equal_objects_hash_differently', f'{spec}: {enc.eo(a)} == {enc.eo(b)} but hashes differ',
                          'obj_case', dict(payload, a=enc.obj_to_json(a), b=enc.obj_to_json(b)))
        ea, eb = enc.eo(a), enc.eo(b)
        if sum(x != y for x, y in zip(ea, eb)) == 1:
            ctx.nontrivial((enc.jdump(spec), name, which, ea, eb))
    if name == 'default':
        for o, e in zip(objs, encs):
            ctx.hit('default.triple')
            if e != own_triple(o):
                ctx.violation('faithful', 'default.not_index_triple',
                              f'{spec} default {which}: {enc.eo(o)} encoded {e}, (registry index, status index, colour value) is {own_triple(o)}',
                              'obj_case', dict(payload, a=enc.obj_to_json(o)))
    else:
        chans = [set(e[c] for e in encs) for c in range(3)]
        # status channel: all statuses of every declared type are part of the space even if an object list misses some
        ctx.hit('channels.' + name.replace('-', '_'))
        for c1, c2 in ((0, 1), (0, 2), (1, 2)):
            if chans[c1] & chans[c2]:
                ctx.violation('faithful', f'{name}.channels_overlap',
                              f'{spec} {name} {which}: channels {c1} and {c2} share values {sorted(chans[c1] & chans[c2])}', 'obj_case', payload)
        coloured = any(t in spec['types'] for t in ('Exit', 'Door', 'Key', 'Telepod', 'Beacon', 'Gate'))
        # gap-freeness is only decidable from objects when every declared colour and every status is realised by an enumerated object
        if name == 'compact' and (coloured or spec['colors'] == ['NONE']) and 'Countdown' not in spec['types']:
            union = chans[0] | chans[1] | chans[2]
            if union != set(range(len(union))):
                ctx.violation('faithful', 'compact.gaps',
                              f'{spec} compact {which}: values used {sorted(union)} are not consecutive from zero', 'obj_case', payload)
    return encs


def member_level(ctx, spec, name, rep, objs, which, rng, payload, encs):
    h, w = (spec['shape'] if which == 'state' else spec['view'])
    helds = objs if which == 'observation' else objs
    helds = [o for o in helds if type(o) is not Hidden] + [NoneGridObject()]
    for trial in range(6):
        rows = repgen.fill_grid(rng, h, w, objs)
        held = repgen.copy_obj(rng.choice(helds))
        if which == 'state':
            y, x, o = rng.randrange(h), rng.randrange(w), rng.choice(gen.ORIENTATIONS)
            m = repgen.make_state(rows, y, x, o, held)
        else:
            m = repgen.make_observation(rows, (h, w), held)
            y, x = m.agent.position.y, m.agent.position.x
        ok, d = call_real(rep.convert, m)
        ctx.ev()
        if not ok:
            ctx.violation('faithful', 'convert.raises', f'{spec} {name}: {describe_exc(d)}', 'member_case', payload)
            return
        base = flat(d)
        # equal members: equal representations and equal hashes
        twin = enc.state_from_json(enc.state_to_json(m)) if which == 'state' else enc.observation_from_json(enc.state_to_json(m))
        ok2, d2 = call_real(rep.convert, twin)
        ctx.hit('equal_members')
        # "equal representations" as a user compares arrays: element-wise (a NaN entry is not even equal to itself)
        if ok2 and not all(np.array_equal(d[k_], d2[k_]) for k_ in d):
            bad_keys = [k_ for k_ in d if not np.array_equal(d[k_], d2[k_])]
            ctx.violation('faithful', f'{name}.equal_members_differ',
                          f'{spec} {name} {which}: equal members have representations that do not compare equal element-wise under '
                          f'{bad_keys} ({[d[k_].tolist() for k_ in bad_keys][:1]})', 'member_case', payload)
        if ok2 and flat(d2) != base:
            ctx.violation('faithful', f'{name}.equal_members_differ', f'{spec} {name} {which}: equal members have different representations',
                          'member_case', payload)
        try:
            if (twin == m) and hash(twin) != hash(m):
                ctx.violation('faithful', 'hash.equal_members_hash_differently', f'{spec}: equal {which}s hash differently', 'member_case', payload)
            if not (twin == m):
                ctx.violation('faithful', 'eq.equal_members_not_equal', f'{spec}: a deep copy of a {which} is not == to it', 'member_case', payload)
        except TypeError:
            pass
        mutation_consistency(ctx, spec, name, rep, objs, helds, which, rng, payload, m)
        # agent marker
        ctx.hit('agent_marker')
        marker = d['agent_id_grid']
        if int(marker.sum()) != 1 or marker[y, x] != 1 or marker.min() < 0:
            ctx.violation('faithful', 'agent_marker.wrong', f'{spec} {name} {which}: agent marker {marker.tolist()} for agent at ({y},{x})',
                          'member_case', payload)
        # positional: entry (cy,cx) equals the item encoding of that object, at every cell
        grid = d['grid']
        lookup = {enc.eo(o): e for o, e in zip(objs, encs)} if encs else {}
        for cy in range(h):
            for cx in range(w):
                ctx.hit('positional')
                want = lookup.get(enc.eo(rows[cy][cx]))
                if want is not None and tuple(int(v) for v in grid[cy, cx]) != want:
                    ctx.violation('faithful', f'{name}.grid_entry_differs_from_item_encoding',
                                  f'{spec} {name} {which}: cell ({cy},{cx}) {enc.eo(rows[cy][cx])} encoded {grid[cy, cx].tolist()} in the grid '
                                  f'but {want} in the item channel', 'member_case', payload)
        # single perturbations must change the representation, and only the perturbed entry
        perturbations = []
        cy, cx = rng.randrange(h), rng.randrange(w)
        others = [o for o in objs if enc.eo(o) != enc.eo(rows[cy][cx])]
        if others:
            rows2 = [list(r) for r in rows]
            rows2[cy][cx] = repgen.copy_obj(rng.choice(others))
            perturbations.append(('cell', rows2, None, None, None, (cy, cx)))
        oh = [o for o in helds if enc.eo(o) != enc.eo(held)]
        if oh:
            perturbations.append(('held', rows, None, None, repgen.copy_obj(rng.choice(oh)), None))
        if which == 'state':
            if h * w > 1:
                ny, nx = rng.choice([(a, b) for a in range(h) for b in range(w) if (a, b) != (y, x)])
                perturbations.append(('position', rows, (ny, nx), None, None, None))
            perturbations.append(('heading', rows, None, rng.choice([q for q in gen.ORIENTATIONS if q is not m.agent.orientation]), None, None))
        for (pk, prow, ppos, phead, pheld, pcell) in perturbations:
            if which == 'state':
                py, px = ppos or (y, x)
                m2 = repgen.make_state([list(r) for r in prow], py, px, phead or m.agent.orientation, pheld or held)
            else:
                m2 = repgen.make_observation([list(r) for r in prow], (h, w), pheld or held)
            ok3, d3 = call_real(rep.convert, m2)
            ctx.ev()
            ctx.hit('neighbours.' + which)
            ctx.nontrivial((enc.jdump(spec), name, which, pk, enc.es(m), enc.es(m2)))
            if not ok3:
                continue
            if flat(d3) == base:
                ctx.violation('faithful', f'{name}.perturbation_invisible.{pk}',
                              f'{spec} {name} {which}: changing the {pk} ({enc.ea(m.agent)} -> {enc.ea(m2.agent)}) leaves the representation unchanged',
                              'member_case', payload)
            if pk == 'cell':
                diff = np.argwhere(np.any(d3['grid'] != d['grid'], axis=-1))
                if [tuple(int(v) for v in r) for r in diff] != [pcell]:
                    ctx.violation('faithful', f'{name}.not_positional',
                                  f'{spec} {name} {which}: changing cell {pcell} changed grid entries {[tuple(int(v) for v in r) for r in diff]}',
                                  'member_case', payload)
                if not np.array_equal(d3['item'], d['item']) or not np.array_equal(d3['agent_id_grid'], d['agent_id_grid']):
                    ctx.violation('faithful', f'{name}.not_positional', f'{spec} {name} {which}: changing a cell changed item/agent channels',
                                  'member_case', payload)


def mutation_consistency(ctx, spec, name, rep, objs, helds, which, rng, payload, original):
    """equal members are ==, hash alike and have equal representations also when one of them reached its value
    through in-place updates (public fields / setters) or through the real dynamics after having been hashed"""
    from gym_gridverse.action import Action
    from gym_gridverse.envs import transition_functions as transition_fs
    rebuild = enc.state_from_json if which == 'state' else enc.observation_from_json
    m = rebuild(enc.state_to_json(original))
    try:
        hash(m), hash(m.grid), hash(m.agent)
        for row in m.grid.objects:
            for o in row:
                hash(o)
    except TypeError:
        return
    h, w = len(m.grid.objects), len(m.grid.objects[0])
    changed = []
    for y in range(h):
        for x in range(w):
            o = m.grid.objects[y][x]
            if isinstance(o, Door) and rng.random() < 0.7:
                o.state = rng.choice([st for st in Door.Status if st is not o.state])
                changed.append('door.state')
            elif type(o).__name__ in ('Key', 'Exit', 'Telepod', 'Beacon') and len(set(spec['colors'])) > 1 and rng.random() < 0.5:
                o.color = rng.choice([Color[c] for c in dict.fromkeys(spec['colors']) if Color[c] is not o.color])
                changed.append('color')
    cy, cx = rng.randrange(h), rng.randrange(w)
    m.grid[cy, cx] = repgen.copy_obj(rng.choice(objs))
    m.agent.grid_object = repgen.copy_obj(rng.choice(helds))
    if which == 'state':
        m.agent.position = Position(rng.randrange(h), rng.randrange(w))
        m.agent.orientation = rng.choice(gen.ORIENTATIONS)
    twin = rebuild(enc.state_to_json(m))
    ctx.ev()
    ctx.hit('mutated_members')
    problems = []
    if not (m == twin):
        problems.append('not ==')
    else:
        try:
            if hash(m) != hash(twin) or hash(m.grid) != hash(twin.grid) or hash(m.agent) != hash(twin.agent):
                problems.append('hash differs')
        except TypeError:
            pass
    ok1, d1 = call_real(rep.convert, m)
    ok2, d2 = call_real(rep.convert, twin)
    if ok1 and ok2 and flat(d1) != flat(d2):
        problems.append('representations differ')
    if problems:
        ctx.violation('faithful', 'equal_members.after_in_place_update',
                      f'{spec} {name} {which}: a member updated in place ({sorted(set(changed))}, cell, agent, held item) and a freshly '
                      f'built equal member: {problems}', 'member_case', payload)
    # through the real dynamics: open a faced door after the state was hashed
    if which == 'state' and 'Door' in spec['types'] and h >= 2:
        rows = repgen.fill_grid(rng, h, w, objs)
        rows[0][0] = Door(Door.Status.CLOSED, Color[rng.choice(spec['colors'])])
        st = repgen.make_state(rows, 1, 0, Orientation.F, NoneGridObject())
        hash(st)
        ok, ns = call_real(transition_fs.transition_with_copy, transition_fs.transition_function_registry['actuate_door'], st,
                           Action.ACTUATE)
        if ok:
            fresh = enc.state_from_json(enc.state_to_json(ns))
            ctx.hit('mutated_members.dynamics')
            bad = []
            if not (ns == fresh):
                bad.append('not ==')
            elif hash(ns) != hash(fresh) or hash(ns.grid.objects[0][0]) != hash(fresh.grid.objects[0][0]):
                bad.append('hash differs')
            ok1, d1 = call_real(rep.convert, ns)
            ok2, d2 = call_real(rep.convert, fresh)
            if ok1 and ok2 and flat(d1) != flat(d2):
                bad.append('representations differ')
            if bad:
                ctx.violation('faithful', 'equal_members.after_transition',
                              f'{spec} {name}: the state reached by opening a door and a freshly built equal state: {bad}',
                              'member_case', payload)


def box_members(ctx, n):
    """members with boxes: the library's equality does not look inside a box, so two members differing only in what their
    boxes contain are equal - they then have to hash alike (objects, grids, agents holding boxes, whole members) and to have
    equal representations (observation side: a state space with boxes cannot be represented)"""
    from gym_gridverse.grid_object import Box, Key, Wall
    for k in range(n):
        rng = gen.rng_for('C16box', ctx.seed, ctx.shard, k)
        vh, vw = rng.randint(1, 4), rng.choice([1, 3, 5])
        types = [Floor, Wall, Key, Door, Box]
        colors = [Color.NONE, Color.RED, Color.BLUE]
        os_ = ObservationSpace(Shape(vh, vw), types, colors)
        contents = [Floor(), Key(Color.RED), Key(Color.BLUE), Door(Door.Status.OPEN, Color.RED), Door(Door.Status.LOCKED, Color.RED),
                    Wall(), Box(Key(Color.RED)), Box(Box(Floor()))]
        base = [[rng.choice([Floor(), Wall(), Key(Color.BLUE), Box(rng.choice(contents))]) for _ in range(vw)] for _ in range(vh)]
        by, bx = rng.randrange(vh), rng.randrange(vw)
        rows_a = [[repgen.copy_obj(o) for o in row] for row in base]
        rows_b = [[repgen.copy_obj(o) for o in row] for row in base]
        ca, cb = rng.sample(contents, 2)
        rows_a[by][bx], rows_b[by][bx] = Box(repgen.copy_obj(ca)), Box(repgen.copy_obj(cb))
        held_a, held_b = (Box(repgen.copy_obj(cb)), Box(repgen.copy_obj(ca))) if k % 2 else (NoneGridObject(), NoneGridObject())
        for which in ('observation', 'state'):
            if which == 'observation':
                a, b = repgen.make_observation(rows_a, (vh, vw), held_a), repgen.make_observation(rows_b, (vh, vw), held_b)
            else:
                a = repgen.make_state([[repgen.copy_obj(o) for o in r] for r in rows_a], vh - 1, vw // 2, Orientation.F, repgen.copy_obj(held_a))
                b = repgen.make_state([[repgen.copy_obj(o) for o in r] for r in rows_b], vh - 1, vw // 2, Orientation.F, repgen.copy_obj(held_b))
            ctx.ev()
            ctx.hit('box_members.pairs')
            payload = {'k': [ctx.seed, ctx.shard, k], 'which': which}
            pairs = [('member', a, b), ('grid', a.grid, b.grid), ('agent', a.agent, b.agent), ('box', a.grid[by, bx], b.grid[by, bx])]
            for what, x, y in pairs:
                try:
                    eq = bool(x == y) and bool(y == x)
                    if eq and hash(x) != hash(y):
                        ctx.violation('faithful', 'hash.equal_objects_hash_differently',
                                      f'{which} {what}s differing only in the content of a box ({enc.eo(ca)} / {enc.eo(cb)}) are == but '
                                      f'hash differently', 'box_case', payload)
                except TypeError:
                    pass
            if which == 'observation':
                try:
                    equal = bool(a == b)
                except Exception:  # noqa
                    continue
                for name in repgen.NAMES:
                    ok, rep = call_real(make_observation_representation, name, os_)
                    if not ok:
                        continue
                    ok1, d1 = call_real(rep.convert, a)
                    ok2, d2 = call_real(rep.convert, b)
                    if ok1 and ok2 and equal != (flat(d1) == flat(d2)):
                        ctx.violation('faithful', 'equal_members.representations_differ' if equal else 'unequal_members.representations_equal',
                                      f'{name}: observations differing only in the content of a box ({enc.eo(ca)} / {enc.eo(cb)}) are '
                                      f'{"==" if equal else "not =="} but their representations are {"different" if equal else "equal"} '
                                      f'(equal representations if and only if equal)', 'box_case', payload)
            ctx.nontrivial(('box', which, enc.es(a), enc.es(b)))


def space_case(ctx, types, colors, shape, view, idx):
    h, w = shape
    vh, vw = view
    spec = {'types': [t.__name__ for t in types], 'colors': [c.name for c in colors], 'shape': [h, w], 'view': [vh, vw]}
    rng = gen.rng_for('C16', ctx.seed, idx)
    stypes = [t for t in types if t is not Hidden]  # Hidden exists in observations only (a state space naming it is refused)
    ss = StateSpace(Shape(h, w), stypes, colors)
    os_ = ObservationSpace(Shape(vh, vw), types, colors)
    sobjs = repgen.dedup(repgen.member_objects(stypes, colors) + [NoneGridObject()])
    oobjs = repgen.dedup(repgen.member_objects(types, colors) + [NoneGridObject(), Hidden()])
    ctx.add('spaces')
    for name in repgen.NAMES:
        payload = dict(spec, rep=name)
        ok, srep = call_real(make_state_representation, name, ss) if stypes else (False, None)
        ok2, orep = call_real(make_observation_representation, name, os_)
        if not ok2:
            continue
        if ok:
            encs = object_level(ctx, spec, name, srep, sobjs, 'state', dict(payload, which='state'))
            grid_objs = [o for o in sobjs if type(o) is not NoneGridObject or NoneGridObject in stypes]
            member_level(ctx, spec, name, srep, grid_objs, 'state', rng, dict(payload, which='state'),
                         [e for o, e in zip(sobjs, encs or []) if type(o) is not NoneGridObject or NoneGridObject in stypes])
        encs = object_level(ctx, spec, name, orep, oobjs, 'observation', dict(payload, which='observation'))
        grid_objs = [o for o in oobjs if type(o) is not NoneGridObject]
        member_level(ctx, spec, name, orep, grid_objs, 'observation', rng, dict(payload, which='observation'),
                     [e for o, e in zip(oobjs, encs or []) if type(o) is not NoneGridObject])
    if idx % 13 == 0:
        ctx.sample('space', spec)


def run(ctx):
    from .. import custom_objects
    with reach(ctx, [rep_mod.default_grid_object_representation_convert, rep_mod.no_overlap_grid_object_representation_convert,
                     rep_mod.compact_grid_object_representation_convert, srep_mod.CompactGridObjectStateRepresentation.__init__,
                     orep_mod.CompactGridObjectObservationRepresentation.__init__, GridObject.__eq__, GridObject.__hash__,
                     Grid.__eq__, Grid.__hash__, Agent.__eq__, Agent.__hash__]):
        for i, (types, colors, shape, view) in enumerate(repgen.space_cases(ctx, 160)):
            if not ctx.mine(i):
                continue
            if i % 4 == 1:
                # user-defined registered types in the space: a door of a derived class next to plain doors, an object with
                # 300 statuses
                types = list(types) + [t for t in (custom_objects.Gate, Door, custom_objects.Countdown) if t not in types]
                ctx.hit('spaces.with_custom_types')
            if ctx.out_of_time(0.9):
                ctx.add('spaces_skipped_for_time')
                continue
            space_case(ctx, types, colors, shape, view, i)
        box_members(ctx, ctx.pick(150, 3000))
        ctx.extra['exhaustive'] = True


def replay(ctx, kind, payload):
    if kind == 'box_case':
        ctx.seed, ctx.shard = payload['k'][0], payload['k'][1]
        box_members(ctx, payload['k'][2] + 1)
        return
    from .. import custom_objects  # noqa: F401  (registers the custom types named in the payload)
    types = [compose.object_type(n) for n in payload['types']]
    colors = [Color[c] for c in payload['colors']]
    space_case(ctx, types, colors, tuple(payload['shape']), tuple(payload['view']), 0)
