"""C04 — the stateful interface mirrors the functional one; observations are
never stale.  See DESIGN.md §2 C04."""
from .. import boot  # noqa: F401
import copy
import pickle

import numpy as np

from gym_gridverse.action import Action
from gym_gridverse.envs import inner_env as inner_env_mod
from gym_gridverse import outer_env as outer_env_mod
from gym_gridverse.outer_env import OuterEnv
from gym_gridverse.representations.observation_representations import make_observation_representation
from gym_gridverse.representations.state_representations import make_state_representation

from .. import compose, enc, gen, workloads
from ..monitor import call_real, describe_exc, raised_by_harness, reach
from .c02 import composition_factory, env_rng_state

ID = 'C04'
LEVEL = 'exploration'
DEBUG_TOGGLE = True  # runner flips the library debug flag every 97 monitored executions
TECHNIQUE = 'runtime monitoring: shadow-trace monitor (a twin environment with the same seed threaded through the functional interface exactly when the documented lazy semantics would call it), call counter on functional_observation per state epoch, generator snapshots around repeated reads, freshness check against a third environment for deterministic observation functions'
LEVEL_TEXT = ('Random operation sequences over {reset, step, read state, read observation 0-3 times}, with mid-episode resets and '
              'stretches of steps without reads, are run on the stateful interface of every shipped config and of random '
              'compositions with stochastic observation functions, next to a shadow that threads states through '
              'functional_reset/step/observation of a twin with the same seed: state, observation, reward and flag must agree at '
              'every operation; functional_observation may run at most once per state epoch; repeated reads return the same '
              'observation without moving the generator; state/observation/step before the first reset must raise; OuterEnv must '
              'expose exactly representation.convert(inner state / observation) for each of the 3x3 representation pairs and '
              'raise without a representation.'
              ' Also: back-to-back resets, refused steps between reads, resets into equal states under stochastic observation, environments replaced by deep copies / pickle round trips, refused outer reads (must not move the generator), reassigned representations.')
LEVEL_NOTE = 'Trusted: the shadow driver; lazy-evaluation order taken from the InnerEnv.observation docstring.'
SHARDS = {'quick': 4, 'thorough': 16}
BUDGET_S = {'quick': 300, 'thorough': 2400}
RULE = ('case = (config or composition, seed, operation sequence). non-trivial = the sequence contains a repeated read, a step '
        'without read, and a mid-episode reset; distinct by (config, seed, hash of the operation sequence).')
ASSUMPTIONS = ['twin environments built from the same configuration with the same seed start from identical generator states']
REQUIRED = {'quick': {'sequences': 60, 'ops': 8000, 'reads.first_after_change': 1500, 'reads.repeated': 1500,
                      'before_reset.checked': 60, 'outer.checked': 500, 'outer.no_representation': 20, 'outer.inner_read_first': 200, 'outer.representation_reassigned': 30,
                      'stochastic_obs.sequences': 8, 'fresh.deterministic_checked': 1000, 'member_state.sequences': 5, 'fixed_reset.sequences': 5,
                      'ops.refused_step': 50, 'ops.clone.deepcopy': 30}}


def op_sequence(rng, n):
    ops = ['reset']
    # patterns that ordinary loops never produce: back-to-back resets with reads in between, reads only at the same
    # step index of consecutive episodes
    ops += rng.choice([
        [('obs', 1), 'reset', ('obs', 1)],
        ['reset', ('obs', 2)],
        [('step', 1), ('step', 2), ('obs', 1), 'reset', ('step', 3), ('step', 4), ('obs', 1)],
        ['state', 'reset', 'reset', 'state', ('obs', 1)],
    ])
    for _ in range(n):
        r = rng.random()
        if r < 0.55:
            ops.append(('step', rng.randrange(64)))
        elif r < 0.8:
            ops.append(('obs', rng.randint(1, 3)))
        elif r < 0.9:
            ops.append('state')
        elif r < 0.94:
            ops.append('reset')
        elif r < 0.96:  # a step the environment must refuse, between two reads of the same state
            ops.extend([('obs', 1), 'bad_step', ('obs', rng.randint(1, 2))])
        elif r < 0.975:  # continue with a copy of the environment, taken right after a step or reset or between reads
            ops.extend([rng.choice([('step', rng.randrange(64)), 'reset', ('obs', 1)]), 'clone', rng.choice([('obs', 2), 'state'])])
        else:  # stretch of steps without any read
            ops.extend(('step', rng.randrange(64)) for _ in range(rng.randint(2, 6)))
    return ops


def before_reset(ctx, make, label, payload):
    for variant in ('fresh', 'deepcopy', 'pickle'):
        env = make()
        if variant != 'fresh':
            env = clone_env(env, variant)
            if env is None:
                continue
        _before_reset(ctx, env, f'{label} ({variant} environment)', payload)


def _before_reset(ctx, env, label, payload):
    for what, f in (('state', lambda: env.state), ('observation', lambda: env.observation),
                    ('step', lambda: env.step(env.action_space.actions[0]))):
        ctx.hit('before_reset.checked')
        ok, res = call_real(f)
        if ok:
            ctx.violation('stateful', f'before_reset.{what}_does_not_raise',
                          f'{label}: {what} before the first reset returned {type(res).__name__} instead of raising', 'seq_case', payload)


def clone_env(env, how):
    """an independent copy of a live environment, as a user checkpointing it would make one; None where the environment
    cannot be copied that way (harness closures in it cannot be pickled, say) - copying is not what is being checked"""
    try:
        return copy.deepcopy(env) if how == 'deepcopy' else pickle.loads(pickle.dumps(env))
    except Exception:  # noqa
        return None


def run_sequence(ctx, make, label, ops, deterministic_obs, payload):
    E, T, F = make(), make(), make()
    calls = {'n': 0}

    def count_calls(env):
        orig = env.functional_observation

        def counted(state):
            calls['n'] += 1
            return orig(state)
        try:
            env.functional_observation = counted  # instance-level call counter
        except AttributeError:  # an environment that does not take instance attributes: the call count is not observable
            ctx.add('call_counter_not_installable')
    count_calls(E)
    s = None
    o = None
    done = False
    features = set()
    for i, op in enumerate(ops):
        ctx.ev()
        ctx.hit('ops')
        if done and op != 'reset':
            op = 'reset'
        where = f'{label} op#{i} {op}'
        if op == 'reset':
            ok, _ = call_real(E.reset)
            if not ok:
                ctx.violation('stateful', 'reset.raises', f'{where}: {describe_exc(_)}', 'seq_case', payload)
                return features
            s = T.functional_reset()
            o = None
            calls['n'] = 0
            done = False
            if i:
                features.add('mid_reset')
        elif op == 'state':
            ok, st = call_real(lambda: E.state)
            if not ok or enc.es(st) != enc.es(s):
                ctx.violation('stateful', 'state.differs_from_functional', f'{where}: stateful state differs from the functional shadow',
                              'seq_case', payload)
                return features
        elif op == 'clone':
            # the environment is replaced by a copy of itself (deepcopy, or a pickle round trip where the environment can be
            # pickled at all): the copy is in the same situation - same state, same (un)computed observation, same generator
            try:
                del E.functional_observation
            except AttributeError:
                pass
            how = 'deepcopy' if i % 2 else 'pickle'
            C = clone_env(E, how)
            if C is None and how == 'pickle':
                how = 'deepcopy'
                C = clone_env(E, how)
            if C is not None:
                E = C
                ctx.hit('ops.clone.' + how)
                features.add('clone')
            count_calls(E)
        elif op == 'bad_step':
            outside = [a for a in Action if a not in E.action_space.actions]
            bad = outside[i % len(outside)] if outside else 'not an action'
            ok, res = call_real(E.step, bad)
            ctx.hit('ops.refused_step')
            features.add('refused_step')
            if ok:
                ctx.violation('stateful', 'step.accepts_outside_action', f'{where}: step({bad!r}) was accepted', 'seq_case', payload)
                return features
            # nothing happened: same state epoch, the shadow does not move (o and calls stay as they are)
        elif op[0] == 'step':
            acts = E.action_space.actions
            a = acts[op[1] % len(acts)]
            if o is None and calls['n'] == 0:
                features.add('step_without_read')
            ok, res = call_real(E.step, a)
            if not ok:
                ctx.violation('stateful', 'step.raises', f'{where}: {describe_exc(res)}', 'seq_case', payload)
                return features
            r, d = res
            s2, r2, d2 = T.functional_step(s, a)
            if (repr(r), d) != (repr(r2), d2):
                ctx.violation('stateful', 'step.reward_or_flag_differs', f'{where}: step returned ({r!r},{d!r}), functional shadow ({r2!r},{d2!r})',
                              'seq_case', payload)
            if enc.es(E.state) != enc.es(s2):
                ctx.violation('stateful', 'state.differs_from_functional', f'{where}: state after step differs from the functional shadow',
                              'seq_case', payload)
                return features
            s, o, done = s2, None, d2
            calls['n'] = 0
        else:  # ('obs', k)
            first = None
            for k in range(op[1]):
                g0 = env_rng_state(E)
                was_memo = o is not None
                ok, ob = call_real(lambda: E.observation)
                if not ok:
                    ctx.violation('stateful', 'observation.raises', f'{where}: {describe_exc(ob)}', 'seq_case', payload)
                    return features
                if o is None:
                    o = T.functional_observation(s)  # the shadow observes exactly when the lazy semantics would
                    ctx.hit('reads.first_after_change')
                else:
                    ctx.hit('reads.repeated')
                    features.add('repeated_read')
                    if env_rng_state(E) != g0:
                        ctx.violation('stateful', 'observation.repeated_read_consumes_randomness',
                                      f'{where}: a repeated read of the observation moved the generator', 'seq_case', payload)
                if enc.es(ob) != enc.es(o):
                    stale = 'stale ' if not was_memo else ''
                    ctx.violation('stateful', 'observation.differs_from_functional',
                                  f'{where}: {stale}observation differs from the functional shadow (read #{k})', 'seq_case', payload)
                    return features
                if first is not None and ob is not first and enc.es(ob) != enc.es(first):
                    ctx.violation('stateful', 'observation.repeated_read_differs', f'{where}: repeated reads returned different observations',
                                  'seq_case', payload)
                first = first or ob
                if calls['n'] > 1:
                    ctx.violation('stateful', 'observation.computed_more_than_once',
                                  f'{where}: functional_observation ran {calls["n"]} times for one state', 'seq_case', payload)
                    calls['n'] = 1
                if deterministic_obs:
                    ctx.hit('fresh.deterministic_checked')
                    fresh = F.functional_observation(E.state)
                    if enc.es(fresh) != enc.es(ob):
                        ctx.violation('stateful', 'observation.stale',
                                      f'{where}: the observation does not belong to the current state', 'seq_case', payload)
                        return features
    return features


def outer_checks(ctx, make, label, ops, payload, state_ok):
    names = ['default', 'no-overlap', 'compact']
    for sname in ([None] + names) if state_ok else [None]:
        for oname in [None] + names:
            if ctx.rng.random() < 0.5 and (sname, oname) != (None, None):
                continue
            inner = make()
            srep = make_state_representation(sname, inner.state_space) if sname else None
            orep = make_observation_representation(oname, inner.observation_space) if oname else None
            outer = OuterEnv(inner, state_representation=srep, observation_representation=orep)
            outer.reset()
            for i, op in enumerate(ops[:40]):
                if i == 14:
                    # the representations are public attributes (the gym layer reassigns them): the outer environment must
                    # follow a reassignment, including from / to "no representation"
                    new_o = ctx.rng.choice([None] + names)
                    new_s = ctx.rng.choice([None] + names) if state_ok else None
                    orep = make_observation_representation(new_o, inner.observation_space) if new_o else None
                    srep = make_state_representation(new_s, inner.state_space) if new_s else None
                    outer.observation_representation = orep
                    outer.state_representation = srep
                    sname, oname = new_s, new_o
                    ctx.hit('outer.representation_reassigned')
                if isinstance(op, tuple) and op[0] == 'step':
                    acts = outer.action_space.actions
                    res = outer.step(acts[op[1] % len(acts)])
                    if res[1]:
                        outer.reset()
                elif op == 'reset':
                    outer.reset()
                ctx.ev()
                if i % 2 == 1:
                    # somebody (a renderer, a monitor) reads the inner observation first: the outer one must still be fresh
                    call_real(lambda: inner.observation)
                    ctx.hit('outer.inner_read_first')
                for what, rep, getter, inner_get in (('state', srep, lambda: outer.state, lambda: inner.state),
                                                     ('observation', orep, lambda: outer.observation, lambda: inner.observation)):
                    g_before = env_rng_state(inner)
                    ok, got = call_real(getter)
                    if rep is None:
                        ctx.hit('outer.no_representation')
                        if env_rng_state(inner) != g_before:
                            ctx.violation('outer', f'outer.refused_{what}_read_consumes_randomness',
                                          f'{label}: reading OuterEnv.{what} without a representation is refused, yet it moved the '
                                          f'environment\'s generator (an observation was computed on the side)', 'outer_case', payload)
                        if ok or not isinstance(got, RuntimeError):
                            ctx.violation('outer', f'outer.{what}_without_representation',
                                          f'{label}: OuterEnv.{what} without a representation -> {got!r} instead of RuntimeError',
                                          'outer_case', payload)
                        continue
                    ctx.hit('outer.checked')
                    if not ok:
                        ctx.violation('outer', f'outer.{what}_raises', f'{label}: OuterEnv.{what} raised {describe_exc(got)}', 'outer_case', payload)
                        continue
                    want = rep.convert(inner_get())
                    if set(got) != set(want) or any(not np.array_equal(got[k], want[k]) for k in want):
                        ctx.violation('outer', f'outer.{what}_not_the_representation',
                                      f'{label}: OuterEnv.{what} ({sname}/{oname}) differs from representation.convert(inner {what})',
                                      'outer_case', payload)


class NoMemberState(Exception):
    """the composition's preconditions cannot be met on its grid (e.g. a 1x1 grid that must hold a unique object and a beacon)"""


def member_reset_factory(comp_seed, fixed=False):
    """composition whose reset function returns random member states (nested boxes, doors of every status, held items):
    states the built-in reset functions never produce, driven through the stateful interface"""
    def make():
        rng = gen.rng_for('C04member', comp_seed)
        comp = workloads.Composition(rng, force_all_actions=not fixed, dense=(comp_seed % 2 == 0))
        if fixed:
            # every reset returns an equal (not identical) state, observed through a stochastic observation function:
            # the episode's first observation is still computed anew
            comp.observation = {'name': 'stochastic_raytracing',
                                'area': [[comp.area.ymin, comp.area.ymax], [comp.area.xmin, comp.area.xmax]]}
        counter = [0]

        def reset(rng=None):
            counter[0] += 0 if fixed and counter[0] else 1
            srng = gen.rng_for('C04member_state', comp_seed, counter[0])
            for _ in range(20):
                st, _ = comp.member_state(srng)
                if st is not None:
                    workloads.steer(comp, srng, st)
                    return st
            raise NoMemberState('no member state')
        return comp.build(reset)
    return make


def member_ops(k, fixed):
    if fixed:
        return [o if i % 7 else 'reset' for i, o in enumerate(op_sequence(gen.rng_for('C04ops', 'fixed', k), 60))]
    ops = op_sequence(gen.rng_for('C04ops', 'member', k), 60)
    # many ACTUATE / PICK_N_DROP: boxes (also nested) get opened, doors opened, keys moved
    return [o if not (isinstance(o, tuple) and o[0] == 'step' and i % 2) else ('step', 6 + (i % 4 == 1)) for i, o in enumerate(ops)]


def member_make(payload):
    factory = member_reset_factory(payload['member_comp'], fixed=payload.get('fixed', False))

    def make():
        env = factory()
        env.set_seed(payload['seed'])
        return env
    return make


def run(ctx):
    configs = compose.shipped_configs()
    with reach(ctx, [inner_env_mod.InnerEnv.reset, inner_env_mod.InnerEnv.step, inner_env_mod.InnerEnv.state.fget,
                     inner_env_mod.InnerEnv.observation.fget, outer_env_mod.OuterEnv.state.fget,
                     outer_env_mod.OuterEnv.observation.fget]):
        job = 0
        n_ops = ctx.pick(150, 400)
        for name, path, data in configs:
            for s in range(ctx.pick(2, 40)):
                job += 1
                if not ctx.mine(job):
                    continue
                if ctx.out_of_time(0.6):
                    ctx.add('sequences_skipped_for_time')
                    continue
                seed = ctx.seed * 1000 + s
                if s == 0 and job % 3 == 0:
                    seed = [0, 2**32 - 1][job % 2]  # special seed values

                def make(data=data, seed=seed):
                    env = compose.factory_env(data)
                    env.set_seed(seed)
                    return env
                rng = gen.rng_for('C04ops', name, seed)
                ops = op_sequence(rng, n_ops)
                payload = {'config': name, 'seed': seed, 'n_ops': n_ops}
                det = data['observation_function']['name'] in ('partially_occluded', 'raytracing', 'fully_transparent')
                before_reset(ctx, make, name, payload)
                feats = run_sequence(ctx, make, f'{name} seed={seed}', ops, det, payload)
                ctx.hit('sequences')
                if {'repeated_read', 'step_without_read', 'mid_reset'} <= feats:
                    ctx.nontrivial((name, seed, enc.digest(ops)))
                state_ok = make().state_space.can_be_represented
                outer_checks(ctx, make, name, ops, payload, state_ok)
                ctx.addset('configs', name)
                if job == 1:
                    ctx.sample('op_sequence', {'config': name, 'seed': seed, 'ops': [list(o) if isinstance(o, tuple) else o for o in ops[:20]]})
        for k in range(ctx.pick(24, 2000)):
            if not ctx.mine(k):
                continue
            if ctx.out_of_time(0.9):
                break
            factory = composition_factory(ctx.seed * 977 + k)
            seed = ctx.seed * 1000 + k

            def make(factory=factory, seed=seed):
                env = factory()
                env.set_seed(seed)
                return env
            try:
                make()
            except Exception:
                continue
            ops = op_sequence(gen.rng_for('C04ops', 'comp', k), n_ops)
            payload = {'composition': ctx.seed * 977 + k, 'seed': seed, 'n_ops': n_ops, 'k': k}
            feats = run_sequence(ctx, make, f'composition#{ctx.seed * 977 + k} seed={seed}', ops, False, payload)
            ctx.hit('sequences')
            ctx.hit('stochastic_obs.sequences')
            outer_checks(ctx, make, f'composition#{ctx.seed * 977 + k}', ops, payload, False)
        for k in range(ctx.pick(24, 600)):
            if not ctx.mine(k):
                continue
            if ctx.out_of_time(0.95):
                break
            seed = ctx.seed * 1000 + k
            for fixed in (False, True):
                # fixed: the same composition with a reset function that always returns an equal state, and many resets
                payload = {'member_comp': ctx.seed * 31 + k, 'seed': seed, 'n_ops': 60, 'k': k, 'fixed': fixed}
                ops = member_ops(k, fixed)
                try:
                    member_make(payload)().functional_reset()
                except NoMemberState:
                    ctx.add('compositions_without_member_state')
                    continue
                run_sequence(ctx, member_make(payload), f'{"fixed-reset" if fixed else "member-state"} composition#{ctx.seed * 31 + k}',
                             ops, False, payload)
                ctx.hit('sequences')
                ctx.hit('fixed_reset.sequences' if fixed else 'member_state.sequences')
            if {'repeated_read', 'step_without_read'} <= feats:
                ctx.nontrivial(('comp', k, enc.digest(ops)))


def replay(ctx, kind, payload):
    if 'member_comp' in payload:
        run_sequence(ctx, member_make(payload), 'member-state composition', member_ops(payload['k'], payload.get('fixed', False)),
                     False, payload)
        return
    if 'config' in payload:
        data = dict((n, d) for n, _, d in compose.shipped_configs())[payload['config']]

        def make():
            env = compose.factory_env(data)
            env.set_seed(payload['seed'])
            return env
        ops = op_sequence(gen.rng_for('C04ops', payload['config'], payload['seed']), payload['n_ops'])
        det = data['observation_function']['name'] in ('partially_occluded', 'raytracing', 'fully_transparent')
        label = payload['config']
    else:
        factory = composition_factory(payload['composition'])

        def make():
            env = factory()
            env.set_seed(payload['seed'])
            return env
        ops = op_sequence(gen.rng_for('C04ops', 'comp', payload['k']), payload['n_ops'])
        det = False
        label = 'composition'
    if kind == 'outer_case':
        outer_checks(ctx, make, label, ops, payload, make().state_space.can_be_represented)
    else:
        before_reset(ctx, make, label, payload)
        run_sequence(ctx, make, label, ops, det, payload)
