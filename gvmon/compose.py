"""Hand assembly of components and environments from config-shaped specs.

This is an independent interpreter of the configuration dictionary (it does
not use gym_gridverse.envs.yaml.factory nor its schemas): names are looked up
in the registries, reserved keys converted here, parameters filtered with
inspect.signature, and the registered function is partially applied.  It is the
reference for C17 and the way random compositions are built for the other
properties.
"""
from . import boot
import copy
import functools
import glob
import importlib
import inspect
import os

import yaml as _yaml

from gym_gridverse.action import Action
from gym_gridverse.envs import (
    observation_functions as observation_fs,
    reset_functions as reset_fs,
    reward_functions as reward_fs,
    terminating_functions as terminating_fs,
    transition_functions as transition_fs,
    visibility_functions as visibility_fs,
)
from gym_gridverse.envs.gridworld import GridWorld
from gym_gridverse.geometry import Area, Position, Shape
from gym_gridverse.grid_object import Color, grid_object_registry
from gym_gridverse.spaces import ActionSpace, ObservationSpace, StateSpace

PROTOCOL = {
    'reset': ['rng'],
    'transition': ['state', 'action', 'rng'],
    'reward': ['state', 'action', 'next_state', 'rng'],
    'terminating': ['state', 'action', 'next_state', 'rng'],
    'observation': ['state', 'rng'],
    'visibility': ['grid', 'position', 'rng'],
}
REGISTRY = {
    'reset': lambda: reset_fs.reset_function_registry,
    'transition': lambda: transition_fs.transition_function_registry,
    'reward': lambda: reward_fs.reward_function_registry,
    'terminating': lambda: terminating_fs.terminating_function_registry,
    'observation': lambda: observation_fs.observation_function_registry,
    'visibility': lambda: visibility_fs.visibility_function_registry,
}


def _strip_custom(name):
    if ':' in name:
        module, name = name.split(':')
        importlib.import_module(module)
    return name


def object_type(name):
    return grid_object_registry.from_name(_strip_custom(name))


def distance(name):
    return {
        'manhattan': Position.manhattan_distance,
        'euclidean': Position.euclidean_distance,
    }[name]


def _convert(kind, key, value):
    if key == 'transition_functions':
        return [build('transition', v) for v in value]
    if key == 'reward_functions':
        return [build('reward', v) for v in value]
    if key == 'terminating_functions':
        return [build('terminating', v) for v in value]
    if key == 'reward_function':
        return build('reward', value)
    if key == 'distance_function':
        return distance(value)
    if key == 'visibility_function':
        return build('visibility', value)
    if key == 'shape':
        return Shape(int(value[0]), int(value[1]))
    if key == 'layout':
        return (value[0], value[1])
    if key == 'area':
        return Area((value[0][0], value[0][1]), (value[1][0], value[1][1]))
    if key == 'object_type':
        return object_type(value)
    if key == 'colors':
        return set(Color[c] for c in value)
    return value


def build(kind, spec):
    """registered function `spec['name']` partially applied to the parameters
    of `spec` that it accepts (others ignored), reserved keys converted"""
    spec = dict(spec)
    name = _strip_custom(spec.pop('name'))
    function = REGISTRY[kind]()[name]
    params = inspect.signature(function).parameters
    n_positional = {'reset': 0, 'transition': 2, 'reward': 3, 'terminating': 3, 'observation': 1, 'visibility': 2}[kind]
    accepted = [p for i, p in enumerate(params) if i >= n_positional and p != 'rng']
    kwargs = {k: _convert(kind, k, v) for k, v in spec.items() if k in accepted}
    missing = [
        p
        for p in accepted
        if params[p].default is inspect.Parameter.empty and p not in kwargs
    ]
    if missing:
        raise ValueError(f'{kind} {name}: missing {missing}')
    return functools.partial(function, **kwargs)


def build_env(data, sample_state=None):
    """GridWorld assembled by hand from a configuration dictionary"""
    data = copy.deepcopy(data)
    reset = build('reset', data['reset_function'])
    transition = build('transition', {'name': 'chain', 'transition_functions': data['transition_functions']})
    reward = build('reward', {'name': 'reduce_sum', 'reward_functions': data['reward_functions']})
    observation = build('observation', data['observation_function'])
    terminating = build('terminating', data['terminating_function'])
    actions = (
        [Action[n] for n in data['action_space']] if 'action_space' in data else list(Action)
    )
    state = sample_state if sample_state is not None else reset()
    obs = observation(state)
    ss = StateSpace(
        state.grid.shape,
        [object_type(n) for n in data['state_space']['objects']],
        [Color[c] for c in data['state_space']['colors']],
    )
    os_ = ObservationSpace(
        obs.grid.shape,
        [object_type(n) for n in data['observation_space']['objects']],
        [Color[c] for c in data['observation_space']['colors']],
    )
    return GridWorld(ss, ActionSpace(actions), os_, reset, transition, observation, reward, terminating)


def assemble(shape, types, colors, actions, transition, reward, terminating, observation, area, reset):
    """GridWorld from already-built component callables (random compositions)"""
    ss = StateSpace(Shape(*shape), list(types), list(colors))
    os_ = ObservationSpace(Shape(area.height, area.width), list(types), list(colors))
    return GridWorld(ss, ActionSpace(list(actions)), os_, reset, transition, observation, reward, terminating)


# ------------------------------------------------------------------ shipped configs


def config_paths(include_examples=True):
    paths = sorted(glob.glob(os.path.join(boot.REPO, 'yaml', '*.yaml')))
    if include_examples:
        paths += sorted(glob.glob(os.path.join(boot.REPO, 'examples', '*.yaml')))
    return paths


def load_yaml(path):
    with open(path) as f:
        return _yaml.safe_load(f)


def shipped_configs(include_examples=True):
    """[(short name, path, data)] for yaml/*.yaml (+ examples/coin_env.yaml)"""
    return [
        (os.path.basename(p)[: -len('.yaml')], p, load_yaml(p))
        for p in config_paths(include_examples)
    ]


def factory_env(data):
    """the environment the *repository's* factory builds from `data`"""
    from gym_gridverse.envs.yaml.factory import factory_env_from_data

    return factory_env_from_data(copy.deepcopy(data))
