"""A user module that cannot be loaded: it registers components under names the library already uses, which the registries
refuse with ValueError at import time (used by C17: `gvmon.colliding_components:<name>` in a configuration)."""
from gym_gridverse.envs.reward_functions import reward_function_registry


@reward_function_registry.register
def living_reward(state, action, next_state, *, reward: float = -1.0, rng=None) -> float:
    return reward
