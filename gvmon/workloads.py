"""Workload building blocks shared by several properties: random compositions of
built-in components (with the components' documented preconditions honoured by
construction), member-state generators, policies for shipped configurations.
"""
from . import boot  # noqa: F401
import copy
import functools

from gym_gridverse.action import Action
from gym_gridverse.agent import Agent
from gym_gridverse.geometry import Area, Orientation, Position
from gym_gridverse.grid_object import (
    Beacon,
    Box,
    Color,
    Door,
    Exit,
    Floor,
    Key,
    MovingObstacle,
    NoneGridObject,
    Telepod,
    Wall,
)
from gym_gridverse.state import State

from . import compose, gen
from .enc import digest

TRANSITIONS = ['move_agent', 'turn_agent', 'pickndrop', 'move_obstacles', 'actuate_door', 'actuate_box', 'teleport']
OBSERVATIONS = ['fully_transparent', 'partially_occluded', 'raytracing', 'stochastic_raytracing']
VISIBILITIES = ['fully_transparent', 'partially_occluded', 'raytracing', 'stochastic_raytracing']
# candidates for the "unique object" of the distance-shaping rewards: types that
# no built-in dynamics can create, destroy or move once boxes cannot contain them
UNIQUE_CANDIDATES = [Exit, Beacon, Wall, Telepod, Door]


def rfloat(rng):
    # zero now and then: falsy parameter values must reach the components like any other
    return 0.0 if rng.random() < 0.08 else round(rng.uniform(-5, 5), 3)


class Composition:
    """a random GridWorld composition in configuration format + its declared
    spaces + the preconditions its member states must meet"""

    def __init__(self, rng, hmax=7, wmax=7, force_transitions=None, deterministic_obs=False,
                 force_all_actions=False, dense=False):
        """dense=True: every built-in transition function (random order), every reward kind and every object type at
        once, so that components interact in every step"""
        self.types = gen.subsets_sample(rng, gen.GRID_TYPES, must_include=(Floor,), p=0.65)
        self.colors = gen.subsets_sample(rng, gen.COLORS, must_include=(Color.NONE,), p=0.5)
        if dense:
            self.types = list(gen.GRID_TYPES)
            self.colors = list(gen.COLORS) if rng.random() < 0.5 else self.colors
            force_transitions = rng.sample(TRANSITIONS, len(TRANSITIONS))
            force_all_actions = True
        # the declared order of object types and colours is arbitrary: nothing may depend on it
        rng.shuffle(self.types)
        rng.shuffle(self.colors)
        self.shape = gen.rand_shape(rng, hmax, wmax)
        self.area = gen.obs_space_area(rng)
        self.unique_type = None
        self.need_beacon = False

        names = force_transitions or rng.sample(TRANSITIONS, rng.randint(1, len(TRANSITIONS)))
        self.transitions = [{'name': n} for n in names]

        cands = [t for t in UNIQUE_CANDIDATES if t in self.types]
        self.rewards = []
        if dense:
            cands = [Exit, Beacon]
            for kind in ['living_reward', 'reach_exit', 'bump_moving_obstacle', 'bump_into_wall', 'actuate_door', 'pickndrop',
                         'overlap', 'reach_exit_memory', 'proportional_to_distance', 'getting_closer',
                         'getting_closer_shortest_path', 'reduce_sum']:
                self.rewards.append(self._rand_reward(rng, cands, kind))
        else:
            for _ in range(rng.randint(1, 5)):
                self.rewards.append(self._rand_reward(rng, cands))
        self.terminating = self._rand_term(rng, 0)
        obs = rng.choice(OBSERVATIONS[:3] if deterministic_obs else OBSERVATIONS + ['from_visibility'])
        a = [[self.area.ymin, self.area.ymax], [self.area.xmin, self.area.xmax]]
        if obs == 'from_visibility':
            vis = rng.choice(VISIBILITIES[:3] if deterministic_obs else VISIBILITIES)
            self.observation = {'name': 'from_visibility', 'area': a, 'visibility_function': {'name': vis}}
            self.obs_kind = 'from_visibility:' + vis
        else:
            self.observation = {'name': obs, 'area': a}
            self.obs_kind = obs
        if force_all_actions or rng.random() < 0.5:
            self.actions = list(Action)
        else:
            self.actions = rng.sample(list(Action), rng.randint(1, 7))
        self.id = digest(self.data())

    def _rand_reward(self, rng, cands, kind=None):
        kind = kind or rng.choice(
            ['living_reward', 'reach_exit', 'bump_moving_obstacle', 'bump_into_wall', 'actuate_door',
             'pickndrop', 'overlap', 'reach_exit_memory', 'proportional_to_distance', 'getting_closer',
             'getting_closer_shortest_path', 'reduce_sum']
        )
        tn = lambda t: t.__name__  # noqa: E731
        if kind == 'living_reward':
            return {'name': kind, 'reward': rfloat(rng)}
        if kind == 'reach_exit':
            return {'name': kind, 'reward_on': rfloat(rng), 'reward_off': rfloat(rng)}
        if kind in ('bump_moving_obstacle', 'bump_into_wall'):
            return {'name': kind, 'reward': rfloat(rng)}
        if kind == 'actuate_door':
            return {'name': kind, 'reward_open': rfloat(rng), 'reward_close': rfloat(rng)}
        if kind == 'pickndrop':
            return {'name': kind, 'object_type': tn(Key if Key in self.types and rng.random() < 0.7 else rng.choice(self.types)), 'reward_pick': rfloat(rng),
                    'reward_drop': rfloat(rng)}
        if kind == 'overlap':
            return {'name': kind, 'object_type': tn(rng.choice(self.types)), 'reward_on': rfloat(rng),
                    'reward_off': rfloat(rng)}
        if kind == 'reach_exit_memory':
            if Beacon not in self.types:
                return {'name': 'living_reward', 'reward': rfloat(rng)}
            self.need_beacon = True
            return {'name': kind, 'reward_good': rfloat(rng), 'reward_bad': rfloat(rng)}
        if kind == 'reduce_sum':
            return {'name': 'reduce_sum',
                    'reward_functions': [{'name': 'living_reward', 'reward': rfloat(rng)},
                                         {'name': 'bump_into_wall', 'reward': rfloat(rng)}]}
        # distance shaping: documented precondition "unique object in grid"
        if not cands:
            return {'name': 'living_reward', 'reward': rfloat(rng)}
        if self.unique_type is None:
            self.unique_type = rng.choice(cands)
        spec = {'name': kind, 'object_type': tn(self.unique_type)}
        if kind == 'proportional_to_distance':
            spec['reward_per_unit_distance'] = rfloat(rng)
        else:
            spec['reward_closer'] = rfloat(rng)
            spec['reward_further'] = rfloat(rng)
        if kind != 'getting_closer_shortest_path':
            spec['distance_function'] = rng.choice(['manhattan', 'euclidean'])
        return spec

    def _rand_term(self, rng, depth):
        kinds = ['reach_exit', 'bump_moving_obstacle', 'bump_into_wall', 'overlap']
        if depth < 2:
            kinds += ['reduce_any', 'reduce_all']
        kind = rng.choice(kinds)
        if kind == 'overlap':
            return {'name': kind, 'object_type': rng.choice(self.types).__name__}
        if kind in ('reduce_any', 'reduce_all'):
            return {'name': kind,
                    'terminating_functions': [self._rand_term(rng, depth + 1) for _ in range(rng.randint(1, 3))]}
        return {'name': kind}

    def data(self):
        """the composition in configuration-file format"""
        return {
            'state_space': {'objects': [t.__name__ for t in self.types], 'colors': [c.name for c in self.colors]},
            'observation_space': {'objects': [t.__name__ for t in self.types],
                                  'colors': [c.name for c in self.colors]},
            'action_space': [a.name for a in self.actions],
            'reset_function': {'name': 'empty', 'shape': [max(4, self.shape[0]), max(4, self.shape[1])]},
            'transition_functions': copy.deepcopy(self.transitions),
            'reward_functions': copy.deepcopy(self.rewards),
            'observation_function': copy.deepcopy(self.observation),
            'terminating_function': copy.deepcopy(self.terminating),
        }

    def summary(self):
        return {
            'shape': list(self.shape),
            'types': [t.__name__ for t in self.types],
            'colors': [c.name for c in self.colors],
            'transitions': [t['name'] for t in self.transitions],
            'rewards': [r['name'] for r in self.rewards],
            'terminating': self.terminating,
            'observation': self.obs_kind,
            'area': [[self.area.ymin, self.area.ymax], [self.area.xmin, self.area.xmax]],
            'actions': [a.name for a in self.actions],
        }

    # -- member states honouring the preconditions
    def member_state(self, rng, category=None):
        # nothing of the unique type - nor of a class derived from it - may hide in a box (opening it would add a second one)
        box_types = [t for t in self.types if self.unique_type is None or not issubclass(t, self.unique_type)]
        types = self.types
        state, cat = gen.rand_state(rng, types, self.colors, shape=self.shape, category=category)
        g = state.grid
        h, w = self.shape
        if self.unique_type is not None:
            T = self.unique_type
            for y in range(h):
                for x in range(w):
                    o = g[y, x]
                    if isinstance(o, T):
                        g[y, x] = Floor()
                    elif isinstance(o, Box) and _contains_type(o, T):
                        g[y, x] = gen.make_obj(rng, Box, self.colors, [t for t in box_types if t is not Box] or [Floor])
            if isinstance(state.agent.grid_object, T) or _contains_type(state.agent.grid_object, T):
                state.agent.grid_object = NoneGridObject()
            y, x = rng.randrange(h), rng.randrange(w)
            g[y, x] = gen.make_obj(rng, T, self.colors, box_types)
        if self.need_beacon and not any(isinstance(o, Beacon) for row in g.objects for o in row):
            cells = [(y, x) for y in range(h) for x in range(w)
                     if self.unique_type is None or not isinstance(g[y, x], self.unique_type)]
            if cells:
                y, x = rng.choice(cells)
                g[y, x] = Beacon(rng.choice(self.colors))
            else:
                return None, cat  # 1x1 grid taken by the unique object: precondition unmeetable
        return state, cat

    def build(self, reset_state_fn):
        wrap = getattr(self, 'wrap_parts', None)
        if wrap:
            # chain members as a user would write them: plain callables that pass every keyword through (a decorator
            # without functools.wraps, a lambda with **kwargs, a callable object)
            from gym_gridverse.envs import transition_functions as _tf
            parts = [wrap_part(compose.build('transition', t), wrap, i) for i, t in enumerate(self.transitions)]
            transition = functools.partial(_tf.chain, transition_functions=parts)
        else:
            transition = compose.build('transition', {'name': 'chain', 'transition_functions': self.transitions})
        reward = compose.build('reward', {'name': 'reduce_sum', 'reward_functions': self.rewards})
        terminating = compose.build('terminating', self.terminating)
        observation = compose.build('observation', self.observation)
        return compose.assemble(self.shape, self.types, self.colors, self.actions, transition, reward,
                                terminating, observation, self.area, reset_state_fn)


class _CallablePart:
    def __init__(self, fn):
        self.fn = fn

    def __call__(self, *args, **kwargs):
        return self.fn(*args, **kwargs)


def wrap_part(fn, style, i):
    """the same transition function behind a signature that does not name its parameters"""
    k = (style + i) % 4
    if k == 0:
        return fn
    if k == 1:
        return lambda state, action, **kwargs: fn(state, action, **kwargs)
    if k == 2:
        def passthrough(*args, **kwargs):
            return fn(*args, **kwargs)
        return passthrough
    return _CallablePart(fn)


def _contains_type(obj, T):
    while isinstance(obj, Box):
        obj = obj.content
        if isinstance(obj, T):
            return True
    return False


# ------------------------------------------------------------------ policies


def policy_random(rng, env, state):
    return rng.choice(env.action_space.actions)


def policy_edge_seeking(rng, env, state):
    """prefers moving; keeps pushing against whatever is in front"""
    acts = env.action_space.actions
    moves = [a for a in acts if a.is_move()]
    if moves and rng.random() < 0.6:
        return rng.choice(moves)
    return rng.choice(acts)


def policy_interactive(rng, env, state):
    """prefers ACTUATE / PICK_N_DROP when something other than floor or wall is in front"""
    acts = env.action_space.actions
    y, x = gen.front_of(state)
    if gen.in_grid(state, y, x):
        o = state.grid[y, x]
        if not isinstance(o, (Floor, Wall)) and rng.random() < 0.7:
            inter = [a for a in acts if a in (Action.ACTUATE, Action.PICK_N_DROP)]
            if inter:
                return rng.choice(inter)
    if Action.MOVE_FORWARD in acts and rng.random() < 0.5:
        return Action.MOVE_FORWARD
    return rng.choice(acts)


POLICIES = {
    'random': policy_random,
    'edge_seeking': policy_edge_seeking,
    'interactive': policy_interactive,
}


class GoalMixPolicy:
    """mostly follows a BFS plan over the real functional_step towards the exit
    (so deep states - key held, door open - are reached), with random deviations
    and deliberate drops of the held item; re-plans after deviating"""

    PLAN_ACTIONS = (Action.MOVE_FORWARD, Action.TURN_LEFT, Action.TURN_RIGHT, Action.ACTUATE, Action.PICK_N_DROP)

    def __init__(self, sink=None, p_random=0.05, p_drop=0.05, max_nodes=1500, stochastic=False, ctx=None):
        self.ctx = ctx
        self.sink = sink
        self.p_random = p_random
        self.p_drop = p_drop
        self.max_nodes = max_nodes
        self.stochastic = stochastic
        self.plan = []
        self.expected = None
        self.plans = 0
        self.failed = 0

    def _replan(self, env, state):
        from . import search
        from .enc import es
        from gym_gridverse.grid_object import Exit

        was = self.sink.enabled if self.sink is not None else None
        if self.sink is not None:
            self.sink.enabled = False
        try:
            def goal(s, a, ns, r, d):
                p = ns.agent.position
                return isinstance(ns.grid[p.y, p.x], Exit)

            def prune(s, a, ns):  # planning never drops what it holds
                return a is Action.PICK_N_DROP and not isinstance(s.agent.grid_object, NoneGridObject)

            acts = [a for a in self.PLAN_ACTIONS if a in env.action_space.actions]
            from gym_gridverse.debugging import gv_debug, reset_gv_debug
            dbg = gv_debug()
            reset_gv_debug(False)
            try:
                if self.ctx is not None and self.ctx.out_of_time(0.9):
                    status, path = 'skipped', None
                else:
                    status, path, _ = search.bfs(env, state, goal, self.max_nodes, stochastic=False, actions=acts,
                                                 prune=prune)
            except Exception:
                status, path = 'error', None
            finally:
                reset_gv_debug(dbg)
        finally:
            if self.sink is not None:
                self.sink.enabled = was
        self.plans += 1
        if status != 'found':
            self.failed += 1
            self.plan = []
        else:
            self.plan = list(path)

    def __call__(self, rng, env, state):
        from .enc import es

        acts = env.action_space.actions
        if self.expected is not None and es(state) != self.expected:
            self.plan = []  # the world did not do what the plan assumed (stochastic dynamics / reset)
        if Action.PICK_N_DROP in acts and not isinstance(state.agent.grid_object, NoneGridObject) \
                and rng.random() < self.p_drop:
            self.plan = []
            self.expected = None
            return Action.PICK_N_DROP
        if rng.random() < self.p_random:
            self.plan = []
            self.expected = None
            return rng.choice(acts)
        if not self.plan:
            self._replan(env, state)
        if not self.plan:
            self.expected = None
            return rng.choice(acts)
        a = self.plan.pop(0)
        self.expected = None
        return a


def steer(comp, rng, state, n_scenarios=None):
    """Steer a member state of `comp` towards situations in which several components interact (agent on a telepod with a
    partner near an edge, door / box / key in front, matching key in hand, obstacle next to the agent ...), using only
    declared types and colours and keeping the composition's preconditions (unique object, beacon) intact.
    Mutates and returns `state`; returns the list of scenarios applied."""
    h, w = comp.shape
    U = comp.unique_type
    types, colors = comp.types, comp.colors
    applied = []

    def free(y, x):
        if not gen.in_grid(state, y, x):
            return False
        o = state.grid[y, x]
        if U is not None and isinstance(o, U):
            return False
        if comp.need_beacon and isinstance(o, Beacon) and sum(isinstance(c, Beacon) for r in state.grid.objects for c in r) <= 1:
            return False
        return True

    def ok(T):
        return T in types and T is not U

    for _ in range(n_scenarios or rng.randint(1, 3)):
        fy, fx = gen.front_of(state)
        ay, ax = state.agent.position.y, state.agent.position.x
        sc = rng.choice(['on_telepod', 'on_telepod', 'door_front', 'door_front', 'box_front', 'key_front', 'hold_key', 'obstacle_near',
                         'exit_near', 'wall_front'])
        if sc == 'on_telepod' and ok(Telepod) and free(ay, ax) and h * w > 1:
            c = rng.choice(colors)
            state.grid[ay, ax] = Telepod(c)
            # partners biased to the last row / last column / corners (their front cell may be outside the grid)
            cands = [(h - 1, x) for x in range(w)] + [(y, w - 1) for y in range(h)] + [(0, 0), (rng.randrange(h), rng.randrange(w))]
            cands = [p for p in cands if p != (ay, ax) and free(*p)]
            for p in rng.sample(cands, min(len(cands), rng.randint(1, 2))):
                if free(*p):  # re-checked at placement time: an earlier placement may have used up the spare beacon
                    state.grid[p[0], p[1]] = Telepod(c)
            applied.append(sc)
        elif sc == 'door_front' and ok(Door) and free(fy, fx):
            c = rng.choice(colors)
            state.grid[fy, fx] = Door(rng.choice(list(Door.Status)), c)
            if ok(Key) and rng.random() < 0.6:
                state.agent.grid_object = Key(c if rng.random() < 0.7 else rng.choice(colors))
            applied.append(sc)
        elif sc == 'box_front' and ok(Box) and free(fy, fx):
            inner = [t for t in types if t is not U and t is not Box]
            state.grid[fy, fx] = gen.make_obj(rng, Box, colors, inner or [Floor])
            applied.append(sc)
        elif sc == 'key_front' and ok(Key) and free(fy, fx):
            state.grid[fy, fx] = Key(rng.choice(colors))
            if rng.random() < 0.5:
                state.agent.grid_object = NoneGridObject()
            applied.append(sc)
        elif sc == 'hold_key' and ok(Key):
            state.agent.grid_object = Key(rng.choice(colors))
            if free(fy, fx) and rng.random() < 0.5:
                state.grid[fy, fx] = Floor()
            applied.append(sc)
        elif sc == 'obstacle_near' and ok(MovingObstacle):
            dy, dx = rng.choice([(-1, 0), (1, 0), (0, -1), (0, 1)])
            if free(ay + dy, ax + dx):
                state.grid[ay + dy, ax + dx] = MovingObstacle()
                applied.append(sc)
        elif sc == 'exit_near' and ok(Exit):
            dy, dx = rng.choice([(-1, 0), (1, 0), (0, -1), (0, 1)])
            if free(ay + dy, ax + dx):
                state.grid[ay + dy, ax + dx] = Exit(rng.choice(colors))
                applied.append(sc)
        elif sc == 'wall_front' and ok(Wall) and free(fy, fx):
            state.grid[fy, fx] = Wall()
            applied.append(sc)
    return applied
