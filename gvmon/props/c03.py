"""C03 — the functional interface is pure, alias-free and history-independent.
See DESIGN.md §2 C03."""
from .. import boot  # noqa: F401
import numpy as np

from gym_gridverse.action import Action
from gym_gridverse.envs import observation_functions as observation_fs
from gym_gridverse.envs import reward_functions as reward_fs
from gym_gridverse.envs import terminating_functions as terminating_fs
from gym_gridverse.envs import transition_functions as transition_fs
from gym_gridverse.envs import visibility_functions as visibility_fs
from gym_gridverse.geometry import Area, Orientation, Position
from gym_gridverse.grid_object import Box, Color, Door, Exit, Floor, Key, NoneGridObject, Wall
from gym_gridverse.utils import fast_copy as fast_copy_mod
from gym_gridverse.utils import raytracing as rt

from .. import compose, dyndrive, enc, gen, obsgen, workloads
from ..monitor import Patch, call_real, describe_exc, reach

ID = 'C03'
LEVEL = 'exploration'
DEBUG_TOGGLE = True  # runner flips the library debug flag every 97 monitored executions
TECHNIQUE = 'runtime monitoring: purity hooks (deep encoding of every argument before/after each call of GridWorld.functional_* and of every registered reward/termination/observation/visibility function), behavioural alias detection by scrambling one side through every mutable handle and re-encoding the other, ask-perturb-ask-again monitors for the memoised helpers, copy equality/hash checks'
LEVEL_TEXT = ('Every monitored call must leave the deep encoding of its state arguments unchanged; after functional_step the returned '
              'next state is scrambled through every public mutable handle (cells replaced, door statuses flipped, objects '
              'recoloured, box contents replaced, agent moved/turned, held item swapped and mutated) and the input must not change, '
              'then symmetrically; returned observation containers are scrambled and the state must not change; the same '
              'deterministic question (step, observation, reward, termination, rays, shortest-path reward with >10 layouts to '
              'overflow its LRU cache) asked again after arbitrary other calls must give an equal answer, also equal to the answer '
              'after cache_clear(); fast_copy of a state must be ==, hash-equal, deep-encoding-equal and independent.'
              ' Also: states reached through the dynamics vs freshly rebuilt equal states, objects carrying arrays / unpicklable data, observation questions in shuffled orders, the same step before and after other environments are declared, shortest-path and ray cache histories with sibling and multi-target layouts.')
LEVEL_NOTE = ('Trusted: enc.es deep encoding and the scrambler. Observations sharing (immutable-use) cell objects with their state is '
              'allowed; only containers are required to be fresh.')
SHARDS = {'quick': 4, 'thorough': 16}
BUDGET_S = {'quick': 300, 'thorough': 2400}
RULE = ('case = (environment or component, state, action) with its scramble / re-ask experiments. non-trivial = the state holds '
        'at least one mutable object (door, box, coloured object) or a held item; distinct by (component, deep state encoding, action).')
ASSUMPTIONS = ['identity scans are diagnostics; the verdict is behavioural (a mutation on one side visible on the other)']
REQUIRED = {'quick': {'purity.calls': 10000, 'alias.step_pairs': 3000, 'alias.observation': 1500, 'history.step': 3000,
                      'history.observation': 1500, 'history.shortest_path': 100, 'history.rays': 60, 'copy.checked': 800,
                      'registry.purity': 5000, 'purity.component_calls': 3000, 'history.rebuild_equivalence': 500, 'pose.at_view_anchor': 30,
                      'userdata.arrays': 40, 'history.observation_order': 300, 'history.declarations': 40, 'userdata.step_answered': 40}}


def scramble(state, rng):
    """mutate a State/Observation through every public mutable handle"""
    rows = state.grid.objects
    for y, row in enumerate(rows):
        for x, o in enumerate(row):
            mutate_object(o, rng)
    for y, row in enumerate(rows):
        for x in range(len(row)):
            state.grid[y, x] = Wall() if (y + x) % 2 else Key(Color.GREEN)
    mutate_object(state.agent.grid_object, rng)
    state.agent.grid_object = Box(Exit(Color.BLUE))
    p = state.agent.position
    state.agent.position = Position(p.y + 3, p.x - 2)
    state.agent.orientation = {Orientation.F: Orientation.L, Orientation.L: Orientation.B, Orientation.B: Orientation.R,
                               Orientation.R: Orientation.F}[state.agent.orientation]
    # container-level: rows themselves
    if rows:
        rows[0][0] = Floor()
        rows.reverse()
        rows.reverse()


def mutate_object(o, rng):
    if isinstance(o, Door):
        o.state = {Door.Status.OPEN: Door.Status.LOCKED, Door.Status.CLOSED: Door.Status.OPEN,
                   Door.Status.LOCKED: Door.Status.CLOSED}[o.state]
    if isinstance(o, Box):
        mutate_object(o.content, rng)
        o.content = Wall()
    c = getattr(o, 'color', None)
    if isinstance(c, Color) and not isinstance(o, (Floor, Wall, NoneGridObject, Box)) and type(o).__name__ not in ('Hidden', 'MovingObstacle'):
        try:
            o.color = Color((c.value + 1) % len(Color))
        except Exception:
            pass


def scramble_containers(view, rng):
    """replace cells of a returned observation (never mutate the cell objects in place)"""
    for y, row in enumerate(view.grid.objects):
        for x in range(len(row)):
            view.grid[y, x] = Wall() if (x + y) % 2 else Floor()
    view.agent.position = Position(0, 0)
    view.agent.grid_object = Wall()


def shared_ids(a, b):
    """diagnostics: mutable components reachable from both"""
    def reach_(s):
        out = {id(s.grid): 'Grid', id(s.grid.objects): 'rows', id(s.agent): 'Agent', id(s.agent.transform): 'Transform'}
        for row in s.grid.objects:
            out[id(row)] = 'row'
            for o in row:
                out[id(o)] = type(o).__name__
                while isinstance(o, Box):
                    o = o.content
                    out[id(o)] = 'content:' + type(o).__name__
        out[id(s.agent.grid_object)] = 'held:' + type(s.agent.grid_object).__name__
        return out
    ra, rb = reach_(a), reach_(b)
    return sorted({ra[i] for i in ra if i in rb})


def nontrivial(state):
    return type(state.agent.grid_object) is not NoneGridObject or any(
        isinstance(o, (Door, Box, Key, Exit)) for row in state.grid.objects for o in row)


def step_experiments(ctx, env, state, action, label, payload, deterministic, rng):
    pre = enc.es(state)
    try:
        hash(state)
    except TypeError:
        pass
    env.set_seed(7)
    ok, res = call_real(env.functional_step, state, action)
    ctx.ev()
    ctx.hit('purity.calls')
    if not ok:
        return
    ns, r, d = res
    # a returned state equals and hashes like a freshly built copy of itself
    fresh = enc.state_from_json(enc.state_to_json(ns))
    try:
        if not (ns == fresh) or hash(ns) != hash(fresh):
            ctx.violation('copy', 'next_state.hash_or_eq_stale',
                          f'{label}: the state returned by functional_step({action.name}) is not ==/hash-equal to a freshly built '
                          f'equal state (== {ns == fresh})', 'step_case', payload)
    except TypeError:
        pass
    if enc.es(state) != pre:
        ctx.violation('purity', 'functional_step.mutates_input', f'{label}: functional_step({action.name}) modified its input state',
                      'step_case', payload)
        return
    ns_enc = enc.es(ns)
    shared = shared_ids(state, ns)
    # alias ns -> s
    ctx.hit('alias.step_pairs')
    scramble(ns, rng)
    if enc.es(state) != pre:
        ctx.violation('alias', 'functional_step.next_state_aliases_input',
                      f'{label}: mutating the returned next state changed the input state (shared: {shared})', 'step_case', payload)
        return
    # history independence: same question again (same seed), after the scramble and other calls
    env.set_seed(7)
    ok, res2 = call_real(env.functional_step, state, action)
    ctx.hit('history.step')
    if ok:
        ns2, r2, d2 = res2
        if (enc.es(ns2), repr(r2), d2) != (ns_enc, repr(r), d):
            ctx.violation('history', 'functional_step.answer_changed',
                          f'{label}: the same step asked twice gave different answers (reward {r!r} vs {r2!r}, flag {d} vs {d2}, '
                          f'state equal: {enc.es(ns2) == ns_enc})', 'step_case', payload)
        # alias s -> ns
        keep = enc.es(ns2)
        twin = dyndrive.copy_state(state)
        scramble(state, rng)
        if enc.es(ns2) != keep:
            ctx.violation('alias', 'functional_step.input_aliases_next_state',
                          f'{label}: mutating the input state afterwards changed the returned next state (shared: {shared})',
                          'step_case', payload)
        return twin
    return None


def observation_experiments(ctx, env, state, label, payload, deterministic, rng):
    pre = enc.es(state)
    env.set_seed(11)
    ok, obs = call_real(env.functional_observation, state)
    ctx.ev()
    ctx.hit('purity.calls')
    if not ok:
        return
    if enc.es(state) != pre:
        ctx.violation('purity', 'functional_observation.mutates_input', f'{label}: functional_observation modified the state',
                      'obs_case', payload)
        return
    o_enc = enc.es(obs)
    ctx.hit('alias.observation')
    scramble_containers(obs, rng)
    if enc.es(state) != pre:
        ctx.violation('alias', 'functional_observation.containers_alias_state',
                      f'{label}: replacing cells of the returned observation changed the state', 'obs_case', payload)
        return
    env.set_seed(11)
    ok, obs2 = call_real(env.functional_observation, state)
    ctx.hit('history.observation')
    if ok and enc.es(obs2) != o_enc:
        ctx.violation('history', 'functional_observation.answer_changed',
                      f'{label}: the same observation asked twice (same seed) differs after the first answer was scrambled',
                      'obs_case', payload)
    if ok:
        keep = enc.es(obs2)
        twin = dyndrive.copy_state(state)
        # replace cells of the *state* (container level): an earlier observation must not follow
        for y, row in enumerate(twin.grid.objects):
            pass
        for y in range(len(state.grid.objects)):
            for x in range(len(state.grid.objects[0])):
                state.grid[y, x] = Wall()
        if enc.es(obs2) != keep:
            ctx.violation('alias', 'functional_observation.state_containers_alias_observation',
                          f'{label}: replacing cells of the state afterwards changed an earlier observation', 'obs_case', payload)
        for y in range(len(state.grid.objects)):
            for x in range(len(state.grid.objects[0])):
                state.grid[y, x] = twin.grid[y, x]


def rebuild_equivalence(ctx, env, state, label, payload, deterministic):
    """a state reached through the dynamics (its objects were updated in place on the way) and a freshly built equal
    state must get equal answers to every deterministic question"""
    fresh = enc.state_from_json(enc.state_to_json(state))
    ctx.ev()
    ctx.hit('history.rebuild_equivalence')
    # same seed before each ask: stochastic observation functions then draw the same randomness
    env.set_seed(5)
    ok1, o1 = call_real(env.functional_observation, state)
    env.set_seed(5)
    ok2, o2 = call_real(env.functional_observation, fresh)
    if ok1 and ok2 and enc.es(o1) != enc.es(o2):
        ctx.violation('history', 'functional_observation.depends_on_object_history',
                      f'{label}: a state reached through the dynamics is observed differently from a freshly built equal state '
                      f'(same seed)', 'obs_case', payload)
    if not deterministic:
        return
    for action in env.action_space.actions:
        env.set_seed(5)
        a = call_real(env.functional_step, state, action)
        env.set_seed(5)
        b = call_real(env.functional_step, fresh, action)
        if a[0] and b[0]:
            (n1, r1, d1), (n2, r2, d2) = a[1], b[1]
            if (enc.es(n1), repr(r1), d1) != (enc.es(n2), repr(r2), d2):
                ctx.violation('history', 'functional_step.depends_on_object_history',
                              f'{label}: step({action.name}) from a state reached through the dynamics differs from the same step from a '
                              f'freshly built equal state (reward {r1!r} vs {r2!r}, flag {d1} vs {d2}, next states equal: '
                              f'{enc.es(n1) == enc.es(n2)})', 'step_case', dict(payload, action=action.name))
                break


def copy_experiments(ctx, state, rng, payload):
    ctx.hit('copy.checked')
    ctx.ev()
    ok, c = call_real(fast_copy_mod.fast_copy, state)
    if not ok:
        ctx.violation('copy', 'fast_copy.raises', describe_exc(c), 'copy_case', payload)
        return
    if not (c == state) or c != state:
        ctx.violation('copy', 'fast_copy.not_equal', 'fast_copy(state) != state', 'copy_case', payload)
    try:
        if hash(c) != hash(state) or hash(c.grid) != hash(state.grid) or hash(c.agent) != hash(state.agent):
            ctx.violation('copy', 'fast_copy.hash_differs', 'fast_copy(state) hashes differently', 'copy_case', payload)
    except TypeError as e:
        ctx.violation('copy', 'state.unhashable', f'hash(state) raised {e}', 'copy_case', payload)
    if enc.es(c) != enc.es(state):
        ctx.violation('copy', 'fast_copy.deep_encoding_differs', 'fast_copy(state) differs in deep encoding (box content / held item)',
                      'copy_case', payload)
    pre = enc.es(state)
    scramble(c, rng)
    if enc.es(state) != pre:
        ctx.violation('alias', 'fast_copy.shares_components', f'mutating a copy changed the original (shared: {shared_ids(state, c)})',
                      'copy_case', payload)


def transition_with_copy_experiments(ctx, state, action, rng, payload):
    for name in workloads.TRANSITIONS:
        fn = transition_fs.transition_function_registry[name]
        pre = enc.es(state)
        ok, ns = call_real(transition_fs.transition_with_copy, fn, state, action, rng=np.random.default_rng(3))
        ctx.ev()
        ctx.hit('purity.calls')
        if not ok:
            continue
        if enc.es(state) != pre:
            ctx.violation('purity', f'transition_with_copy.mutates_input', f'transition_with_copy({name}, {action.name}) modified its input',
                          'twc_case', dict(payload, fn=name))
            continue
        scramble(ns, rng)
        if enc.es(state) != pre:
            ctx.violation('alias', 'transition_with_copy.aliases_input',
                          f'transition_with_copy({name}): mutating the result changed the input', 'twc_case', dict(payload, fn=name))


def _carriers(state):
    out = [o for row in state.grid.objects for o in row]
    out.append(state.agent.grid_object)
    for o in list(out):
        while isinstance(o, Box):
            o = o.content
            out.append(o)
    return out


def _arrays(state):
    return [getattr(o, 'heat').tolist() if hasattr(o, 'heat') else None for o in _carriers(state)]


def user_data_experiments(ctx, env, state, action, label, payload, rng, unpicklable):
    """objects of a state may carry user data outside (type, status, colour): numpy arrays (which pickle protocol 5 can hand
    over by reference) and, in the second variant, something that cannot be pickled at all (a lambda).  functional_step may
    refuse such a state, but if it answers, the answer must not share the arrays / objects with its input."""
    carriers = [o for o in _carriers(state) if type(o).__name__ not in ('NoneGridObject',)]
    if not carriers:
        return
    try:
        for o in rng.sample(carriers, min(len(carriers), 4)):
            o.heat = np.arange(4096 if rng.random() < 0.5 else 5, dtype=float)  # large and small buffers
        if unpicklable:
            rng.choice(carriers).note = lambda: 0
    except AttributeError:  # objects that do not take extra attributes (__slots__): nothing to attach, nothing to check
        ctx.hit('userdata.not_attachable')
        ctx.hit('userdata.unpicklable' if unpicklable else 'userdata.arrays')
        ctx.hit('userdata.step_answered')
        return
    pre, pre_arr = enc.es(state), _arrays(state)
    env.set_seed(7)
    ok, res = call_real(env.functional_step, state, action)
    ctx.ev()
    ctx.hit('userdata.unpicklable' if unpicklable else 'userdata.arrays')
    if enc.es(state) != pre or _arrays(state) != pre_arr:
        ctx.violation('purity', 'functional_step.mutates_input', f'{label}: functional_step({action.name}) modified its input state '
                      f'(objects carrying user data{", one of them unpicklable" if unpicklable else ""})', 'userdata_case', payload)
        return
    if not ok:
        ctx.hit('userdata.step_refused')
        return
    ns = res[0]
    ctx.hit('userdata.step_answered')
    for o in _carriers(ns):
        h = getattr(o, 'heat', None)
        if h is not None:
            try:
                h += 1.0
            except ValueError:  # read-only buffer: cannot be written through, nothing to observe
                pass
    if _arrays(state) != pre_arr:
        ctx.violation('alias', 'functional_step.next_state_shares_arrays',
                      f'{label}: writing into an array attached to an object of the returned next state changed the array of the '
                      f'input state (step {action.name})', 'userdata_case', payload)
        return
    scramble(ns, rng)
    if enc.es(state) != pre:
        ctx.violation('alias', 'functional_step.next_state_aliases_input',
                      f'{label}: mutating the returned next state changed the input state (objects carrying user data'
                      f'{", one unpicklable" if unpicklable else ""}; shared: {shared_ids(state, ns)})', 'userdata_case', payload)


def shortest_path_history(ctx, rng):
    """more than 10 distinct layouts overflow dijkstra's LRU; answers must not depend on the query history"""
    fn = reward_fs.factory('getting_closer_shortest_path', object_type=Exit, reward_closer=1.0, reward_further=-1.0)
    questions = []
    for k in range(14):
        h, w = rng.randint(3, 6), rng.randint(3, 6)
        s, _ = gen.rand_state(rng, [Floor, Wall], [Color.NONE], shape=(h, w), p_floor=rng.choice([0.5, 0.75]))
        ey, ex = rng.randrange(h), rng.randrange(w)
        s.grid[ey, ex] = Exit()
        free = [(y, x) for y in range(h) for x in range(w) if not s.grid[y, x].blocks_movement]
        y, x = rng.choice(free)
        s.agent.position = Position(y, x)
        ns = dyndrive.copy_state(s)
        y2, x2 = rng.choice(free)
        ns.agent.position = Position(y2, x2)
        questions.append((s, Action.MOVE_FORWARD, ns))
        # a sibling layout: same shape, same number of walls, same exit, one wall moved
        walls = [(yy, xx) for yy in range(h) for xx in range(w) if isinstance(s.grid[yy, xx], Wall)]
        frees = [(yy, xx) for yy in range(h) for xx in range(w) if type(s.grid[yy, xx]) is Floor
                 and (yy, xx) not in ((y, x), (y2, x2))]
        for _ in range(2 if walls and frees else 0):
            s_b, ns_b = dyndrive.copy_state(s), dyndrive.copy_state(ns)
            (wy, wx), (fy, fx) = rng.choice(walls), rng.choice(frees)
            for st in (s_b, ns_b):
                st.grid[wy, wx] = Floor()
                st.grid[fy, fx] = Wall()
            questions.append((s_b, Action.MOVE_FORWARD, ns_b))
        # a sibling question outside the documented precondition: the same walkable layout with a second object of the type
        # further on in the grid (today that is refused; whatever the answer is, it must not change the answers to the others)
        later = [(yy, xx) for yy in range(h) for xx in range(w) if type(s.grid[yy, xx]) is Floor and (yy, xx) > (ey, ex)
                 and (yy, xx) not in ((y, x), (y2, x2))]
        if later:
            s_m, ns_m = dyndrive.copy_state(s), dyndrive.copy_state(ns)
            my, mx = rng.choice(later)
            for st in (s_m, ns_m):
                st.grid[my, mx] = Exit()
            questions.append((s_m, Action.MOVE_FORWARD, ns_m))
    getattr(reward_fs.dijkstra, 'cache_clear', lambda: None)()
    truth = []
    for q in questions:
        getattr(reward_fs.dijkstra, 'cache_clear', lambda: None)()
        truth.append(call_real(fn, *q))
    for rep in range(3):
        order = list(range(len(questions)))
        rng.shuffle(order)
        for i in order + order[:5]:
            ctx.ev()
            ctx.hit('history.shortest_path')
            got = call_real(fn, *questions[i])
            if got[0] != truth[i][0] or (got[0] and got[1] != truth[i][1]) or (not got[0] and type(got[1]) is not type(truth[i][1])):
                ctx.violation('history', 'getting_closer_shortest_path.depends_on_cache_history',
                              f'shortest-path reward for question {i} is {got[1]!r} after other queries but {truth[i][1]!r} on a cold cache',
                              'sp_case', {'question': i, 'state': enc.state_to_json(questions[i][0]),
                                          'next_state': enc.state_to_json(questions[i][2])})


def ray_history(ctx, rng):
    vis = visibility_fs.visibility_function_registry['raytracing']
    qs = []
    for _ in range(10):
        h, w = rng.randint(1, 6), rng.randint(1, 6)
        s, _ = gen.rand_state(rng, [Floor, Wall, Door], gen.COLORS, shape=(h, w))
        qs.append((s.grid, Position(rng.randrange(h), rng.randrange(w))))
    getattr(rt.cached_compute_rays_fancy, 'cache_clear', lambda: None)()
    truth = []
    for g, p in qs:
        getattr(rt.cached_compute_rays_fancy, 'cache_clear', lambda: None)()
        truth.append(vis(g, p).tolist())
    for rep in range(2):
        order = list(range(len(qs)))
        rng.shuffle(order)
        for i in order:
            ctx.ev()
            ctx.hit('history.rays')
            g, p = qs[i]
            got = vis(g, p)
            got.fill(False) if False else None
            if got.tolist() != truth[i]:
                ctx.violation('history', 'raytracing.depends_on_cache_history',
                              f'ray-traced visibility for query {i} differs after other queries', 'ray_case', {'query': i})
            got[...] = False  # scribbling on a returned array must not matter next time


def observation_history(ctx, rng, n):
    """deterministic observation questions (state, view area, function) over small, mostly open worlds and views of every
    kind (one column wide, agent in a corner of the view, agent outside the view), asked in shuffled orders: the answer to a
    question is the same whatever was asked before it"""
    qs = []
    for k in range(n):
        h, w = rng.randint(1, 6), rng.randint(1, 6)
        state, _ = gen.rand_state(rng, [Floor, Wall, Door, Key], gen.COLORS, shape=(h, w), p_floor=rng.choice([0.6, 0.9, 1.0]))
        kind = k % 4
        if kind == 0:
            area = Area((-rng.randint(0, 3), 0), (0, 0))                       # one column
        elif kind == 1:
            area = Area((-rng.randint(0, 3), 0), rng.choice([(0, 2), (-2, 0)]))  # agent in a bottom corner of its view
        elif kind == 2:
            area = gen.rand_area(rng, maxext=3, require_ymax0=True)
        else:
            area = gen.obs_space_area(rng)
        for name in obsgen.DETERMINISTIC:
            if obsgen.supported(name, area):
                qs.append((name, area, state))
    fns = {}
    answers = {}
    for rep in range(3):
        order = list(range(len(qs)))
        rng.shuffle(order)
        for i in order:
            name, area, state = qs[i]
            fn = fns.get((name, area)) or fns.setdefault((name, area), obsgen.build_obs(name, area))
            ok, obs = call_real(fn, state, rng=None)
            ctx.ev()
            ctx.hit('history.observation_order')
            got = enc.es(obs) if ok else type(obs).__name__
            if i in answers and answers[i] != got:
                ctx.violation('history', f'observation.depends_on_query_history.{name}',
                              f'{name} area {obsgen.area_json(area)}: the same state observed again after other observations gives a '
                              f'different answer', 'obs_history_case', {'note': 'C03 observation_history', 'question': i})
            answers.setdefault(i, got)


def declaration_history(ctx, rng, n):
    """the answer of one environment's functional step - a next state, or a refusal - does not depend on which other
    environments (declaring other object types and colours) have been built in between"""
    from gym_gridverse.debugging import reset_gv_debug
    pool = [Floor, Wall, Key, Door, Exit, Box]
    chain = compose.build('transition', {'name': 'chain', 'transition_functions': [{'name': n_} for n_ in workloads.TRANSITIONS]})

    def make(types, shape):
        return compose.assemble(shape, types, gen.COLORS, list(Action), chain, compose.build('reward', {'name': 'living_reward'}),
                                compose.build('terminating', {'name': 'reach_exit'}),
                                compose.build('observation', {'name': 'fully_transparent', 'area': [[-1, 0], [-1, 1]]}),
                                Area((-1, 0), (-1, 1)), lambda rng=None: None)
    for k in range(n):
        shape = (rng.randint(2, 4), rng.randint(2, 4))
        declared = rng.sample(pool, rng.randint(1, 3))
        if Floor not in declared:
            declared.append(Floor)
        env = make(declared, shape)
        # a state that may or may not conform: grid of declared types (every third time of any pool types), held item of any
        # pool type
        state, _ = gen.rand_state(rng, declared if (k + 1) % 3 else rng.sample(pool, 3) + [Floor], gen.COLORS, shape=shape)
        state.agent.grid_object = gen.make_obj(rng, rng.choice([Key, Key, Door, Box, Wall, Exit]), gen.COLORS, [Floor, Key])
        if (k + 1) % 4 == 0:
            state.agent.grid_object = NoneGridObject()
        action = rng.choice(list(Action))
        was = reset_gv_debug(True)
        try:
            env.set_seed(1)
            ok1, r1 = call_real(env.functional_step, dyndrive.copy_state(state), action)
            ok1c, c1 = call_real(env.state_space.contains, state)
            # other environments, declaring everything / other subsets, are built and used
            for types in (pool, rng.sample(pool, 2) + [Floor]):
                other = make(types, shape)
                other.set_seed(2)
                call_real(other.functional_step, dyndrive.copy_state(state), action)
            env.set_seed(1)
            ok2, r2 = call_real(env.functional_step, dyndrive.copy_state(state), action)
            ok2c, c2 = call_real(env.state_space.contains, state)
        finally:
            reset_gv_debug(True)
        ctx.ev()
        ctx.hit('history.declarations')
        a1 = (enc.es(r1[0]), repr(r1[1]), r1[2]) if ok1 else type(r1).__name__
        a2 = (enc.es(r2[0]), repr(r2[1]), r2[2]) if ok2 else type(r2).__name__
        if a1 != a2 or (ok1c and ok2c and c1 != c2):
            ctx.violation('history', 'functional_step.depends_on_other_environments',
                          f'environment declaring {[t.__name__ for t in declared]}: step {action.name} on the same state was '
                          f'{"answered" if ok1 else "refused (" + str(a1) + ")"} before and {"answered" if ok2 else "refused (" + str(a2) + ")"} '
                          f'after other environments were built (state_space.contains: {c1} then {c2})', 'decl_history_case',
                          {'note': 'C03 declaration_history', 'k': k})


def component_purity_sweep(ctx):
    """every built-in reward / termination component on directed triples (door
    in front, wall bump, pick, drop, ...): the registry purity hooks decide"""
    from . import c12
    for k in range(ctx.pick(40, 1600)):
        rng = gen.rng_for('C03purity', ctx.seed, ctx.shard, k)
        comp = workloads.Composition(rng, force_all_actions=True)
        for t in (Door, Key, Wall, Exit):
            if t not in comp.types:
                comp.types.append(t)
        triples = c12.make_triples(ctx, comp, rng, 12)
        specs = [('reward', r) for r in comp.rewards] + [('terminating', comp.terminating)]
        specs += [('reward', {'name': 'actuate_door'}), ('reward', {'name': 'pickndrop', 'object_type': 'Key'}),
                  ('reward', {'name': 'bump_into_wall'}), ('reward', {'name': 'reach_exit'}),
                  ('reward', {'name': 'bump_moving_obstacle'}), ('reward', {'name': 'living_reward'}),
                  ('terminating', {'name': 'bump_into_wall'}), ('terminating', {'name': 'reach_exit'})]
        for kind, spec in specs:
            ok, fn = call_real(compose.build, kind, spec)
            if not ok:
                continue
            for (s_, a_, ns_, real) in triples:
                ctx.ev()
                ctx.hit('purity.component_calls')
                call_real(fn, s_, a_, ns_)


def install_registry_purity(ctx, patch):
    """purity hook on every registered reward / termination / observation / visibility function"""
    def make(kind, name, n_state_args):
        def factory(orig):
            def wrapper(*args, **kwargs):
                pres = [enc.es(a) if hasattr(a, 'agent') else enc.eg(a) for a in args[:n_state_args] if hasattr(a, 'grid') or hasattr(a, 'objects')]
                result = orig(*args, **kwargs)
                posts = [enc.es(a) if hasattr(a, 'agent') else enc.eg(a) for a in args[:n_state_args] if hasattr(a, 'grid') or hasattr(a, 'objects')]
                ctx.hit('registry.purity')
                if pres != posts:
                    ctx.violation('purity', f'{kind}.{name}.mutates_argument', f'{kind} function {name} modified a state/grid passed to it',
                                  'registry_case', {'kind': kind, 'name': name})
                return result
            return wrapper
        return factory
    for kind, reg, mod, nargs in (('reward', reward_fs.reward_function_registry, reward_fs, 3),
                                  ('terminating', terminating_fs.terminating_function_registry, terminating_fs, 3),
                                  ('observation', observation_fs.observation_function_registry, observation_fs, 1),
                                  ('visibility', visibility_fs.visibility_function_registry, visibility_fs, 1)):
        for name in list(reg.keys()):
            patch.registry_and_module(reg, mod, name, make(kind, name, nargs))


def run(ctx):
    from .. import custom_objects
    custom_objects.enable(cleats=True)  # user-defined object types join the generators' pool (flags, not types, must decide)
    with Patch() as patch, reach(ctx, [fast_copy_mod.fast_copy, transition_fs.transition_with_copy, reward_fs.dijkstra,
                                       reward_fs.getting_closer_shortest_path]):
        install_registry_purity(ctx, patch)
        # first thing in the process, before any other space or environment exists (state that accumulates across
        # environments only shows while it is still empty)
        declaration_history(ctx, gen.rng_for('C03decl0', ctx.seed, ctx.shard), 12)
        # random compositions: member states incl. nested boxes, held items, all door statuses x all actions
        for c in range(ctx.pick(200, 8000)):
            if not ctx.mine(c):
                continue
            if ctx.out_of_time(0.55):
                ctx.add('compositions_skipped_for_time')
                break
            rng = gen.rng_for('C03comp', ctx.seed, c)
            comp = workloads.Composition(rng, force_all_actions=True, dense=(c % 4 == 1))
            if c % 5 == 2:  # the view coincides with the whole grid when the agent stands at the anchor facing forward
                comp.shape = (comp.area.height, comp.area.width)
            holder = {}
            env = comp.build(lambda rng=None: holder['s'])
            deterministic = not ({'move_obstacles', 'teleport'} & {t['name'] for t in comp.transitions})
            for k in range(ctx.pick(6, 10)):
                state, cat = comp.member_state(rng)
                if state is None:
                    continue
                if c % 5 == 2 and k % 2 == 0:
                    state.agent.position = Position(comp.shape[0] - 1, comp.shape[1] // 2)
                    state.agent.orientation = Orientation.F
                    ctx.hit('pose.at_view_anchor')
                holder['s'] = state
                payload = {'comp_seed': [ctx.seed, c], 'state': enc.state_to_json(state)}
                if nontrivial(state):
                    ctx.nontrivial((comp.id, enc.es(state)))
                copy_experiments(ctx, dyndrive.copy_state(state), rng, payload)
                for action in Action:
                    s = dyndrive.copy_state(state)
                    step_experiments(ctx, env, s, action, f'composition {comp.id}', dict(payload, action=action.name),
                                     deterministic, rng)
                observation_experiments(ctx, env, dyndrive.copy_state(state), f'composition {comp.id}', payload, True, rng)
                if k < 2:
                    ua = rng.choice(list(Action))
                    user_data_experiments(ctx, env, dyndrive.copy_state(state), ua, f'composition {comp.id}',
                                          dict(payload, action=ua.name, unpicklable=bool(k), rng_key=[ctx.seed, c, k]),
                                          gen.rng_for('C03ud', ctx.seed, c, k), bool(k))
                if k == 0:
                    transition_with_copy_experiments(ctx, dyndrive.copy_state(state), rng.choice(list(Action)), rng, payload)
                # a short real history, then rebuild-equivalence on the state it reaches
                cur = dyndrive.copy_state(state)
                for _ in range(3):
                    ok, res = call_real(env.functional_step, cur, workloads.policy_interactive(rng, env, cur))
                    if not ok:
                        break
                    cur = res[0]
                rebuild_equivalence(ctx, env, cur, f'composition {comp.id}', {'comp_seed': [ctx.seed, c], 'state': enc.state_to_json(cur)},
                                    True)
            if c == 0:
                ctx.sample('state', {'composition': comp.summary(), 'state': enc.render(state) if state else None})
        # shipped compositions along trajectories
        job = 0
        for name, path, data in compose.shipped_configs():
            job += 1
            if not ctx.mine(job):
                continue
            if ctx.out_of_time(0.85):
                break
            env = compose.factory_env(data)
            env.set_seed(ctx.seed)
            state = env.functional_reset()
            prng = gen.rng_for('C03ship', name, ctx.seed)
            for t in range(ctx.pick(40, 400)):
                action = workloads.policy_interactive(prng, env, state)
                payload = {'config': name, 'state': enc.state_to_json(state), 'action': action.name}
                if t % 3 == 0:
                    rebuild_equivalence(ctx, env, state, name, payload, True)
                    env.set_seed(ctx.seed + t)
                twin = step_experiments(ctx, env, dyndrive.copy_state(state), action, name, payload, True, prng)
                observation_experiments(ctx, env, dyndrive.copy_state(state), name, payload, True, prng)
                ok, res = call_real(env.functional_step, state, action)
                if not ok:
                    break
                state = res[0]
                if res[2]:
                    state = env.functional_reset()
            ctx.addset('configs', name)
        # states reached through door/box/key-rich real histories, under both occluding observation functions
        for k in range(ctx.pick(120, 2500)):
            rng = gen.rng_for('C03hist', ctx.seed, ctx.shard, k)
            hstate = obsgen.history_state(rng)
            h, w = len(hstate.grid.objects), len(hstate.grid.objects[0])
            area = gen.obs_space_area(rng)
            a = [[area.ymin, area.ymax], [area.xmin, area.xmax]]
            obs_name = ['raytracing', 'partially_occluded', 'stochastic_raytracing'][k % 3]
            env = compose.assemble(
                (h, w), gen.GRID_TYPES, gen.COLORS, list(Action),
                compose.build('transition', {'name': 'chain', 'transition_functions': [{'name': n} for n in workloads.TRANSITIONS]}),
                compose.build('reward', {'name': 'reduce_sum', 'reward_functions': [{'name': 'living_reward'}, {'name': 'actuate_door'},
                                                                                     {'name': 'bump_into_wall'}]}),
                compose.build('terminating', {'name': 'reach_exit'}),
                compose.build('observation', {'name': obs_name, 'area': a}), area, lambda rng=None: hstate)
            rebuild_equivalence(ctx, env, hstate, f'history state under {obs_name}', {'state': enc.state_to_json(hstate), 'hist_key': [ctx.seed, ctx.shard, k]}, True)
        component_purity_sweep(ctx)
        shortest_path_history(ctx, gen.rng_for('C03sp', ctx.seed, ctx.shard))
        ray_history(ctx, gen.rng_for('C03ray', ctx.seed, ctx.shard))
        observation_history(ctx, gen.rng_for('C03obsh', ctx.seed, ctx.shard), ctx.pick(60, 600))
        declaration_history(ctx, gen.rng_for('C03decl', ctx.seed, ctx.shard), ctx.pick(60, 800))


def replay(ctx, kind, payload):
    from .. import custom_objects
    custom_objects.enable(cleats=True)
    rng = gen.rng_for('replay')
    with Patch() as patch:
        install_registry_purity(ctx, patch)
        if 'config' in payload:
            data = dict((n, d) for n, _, d in compose.shipped_configs())[payload['config']]
            env = compose.factory_env(data)
        elif 'comp_seed' in payload:
            crng = gen.rng_for('C03comp', payload['comp_seed'][0], payload['comp_seed'][1])
            comp = workloads.Composition(crng, force_all_actions=True, dense=(payload['comp_seed'][1] % 4 == 1))
            if payload['comp_seed'][1] % 5 == 2:
                comp.shape = (comp.area.height, comp.area.width)
            st = enc.state_from_json(payload['state'])
            env = comp.build(lambda rng=None: st)
        elif 'state' in payload:
            st0 = (obsgen.history_state(gen.rng_for('C03hist', *payload['hist_key'])) if 'hist_key' in payload
                   else enc.state_from_json(payload['state']))
            hh, ww = len(st0.grid.objects), len(st0.grid.objects[0])
            for obs_name in ('raytracing', 'partially_occluded'):
                area = Area((-3, 0), (-2, 2))
                env = compose.assemble(
                    (hh, ww), gen.GRID_TYPES, gen.COLORS, list(Action),
                    compose.build('transition', {'name': 'chain', 'transition_functions': [{'name': n} for n in workloads.TRANSITIONS]}),
                    compose.build('reward', {'name': 'reduce_sum', 'reward_functions': [{'name': 'living_reward'}, {'name': 'actuate_door'}]}),
                    compose.build('terminating', {'name': 'reach_exit'}),
                    compose.build('observation', {'name': obs_name, 'area': [[-3, 0], [-2, 2]]}), area, lambda rng=None: st0)
                rebuild_equivalence(ctx, env, st0, 'replay', payload, True)
            return
        elif payload.get('note') == 'C03 observation_history':
            observation_history(ctx, gen.rng_for('C03obsh', ctx.seed, 0), 60)
            return
        elif payload.get('note') == 'C03 declaration_history':
            declaration_history(ctx, gen.rng_for('C03decl', ctx.seed, 0), 60)
            return
        else:
            shortest_path_history(ctx, rng)
            ray_history(ctx, rng)
            return
        state = enc.state_from_json(payload['state'])
        if kind == 'userdata_case':
            user_data_experiments(ctx, env, state, Action[payload['action']], 'replay', payload,
                                  gen.rng_for('C03ud', *payload['rng_key']), payload['unpicklable'])
            return
        copy_experiments(ctx, dyndrive.copy_state(state), rng, payload)
        acts = [Action[payload['action']]] if payload.get('action') else list(Action)
        for a in acts:
            if a in env.action_space.actions:
                step_experiments(ctx, env, dyndrive.copy_state(state), a, 'replay', payload, True, rng)
        observation_experiments(ctx, env, dyndrive.copy_state(state), 'replay', payload, True, rng)
        transition_with_copy_experiments(ctx, dyndrive.copy_state(state), acts[0], rng, payload)
