#!/usr/bin/env python3
"""tools/coverage_report.py <dir> [--by-check]  - merges the line sets written by checks run with GV_COVERAGE_DIR=<dir> and
lists, per repository module, the executable lines (and the functions containing them) that no check executed.  A planning
aid for widening workloads: a line no monitor-driven execution reaches cannot be decided by this family at all."""
import ast
import glob
import json
import os
import sys

REPO = os.environ.get('GV_REPO', '/repo')


def executable_lines(path):
    import dis
    src = open(path).read()
    code = compile(src, path, 'exec')
    lines = set()
    todo = [code]
    while todo:
        c = todo.pop()
        if c.co_flags & 0x1:  # function bodies only: module and class bodies (def headers, defaults) run at import time
            for _, _, ln in c.co_lines():
                if ln and ln != c.co_firstlineno:
                    lines.add(ln)
        todo += [k for k in c.co_consts if hasattr(k, 'co_lines')]
    return lines, ast.parse(src)


def main():
    d = sys.argv[1]
    hit = {}
    per_check = {}
    for f in glob.glob(os.path.join(d, '*.json')):
        check = os.path.basename(f).split('.')[0]
        for fn, ln in json.load(open(f)):
            hit.setdefault(fn, set()).add(ln)
            per_check.setdefault(check, set()).add((fn, ln))
    total = missed_total = 0
    for root, _, files in os.walk(os.path.join(REPO, 'gym_gridverse')):
        for name in sorted(files):
            if not name.endswith('.py'):
                continue
            path = os.path.join(root, name)
            rel = path[len(REPO) + 1:]
            lines, tree = executable_lines(path)
            got = hit.get(rel, set())
            missed = sorted(lines - got)
            total += len(lines)
            missed_total += len(missed)
            if not missed:
                continue
            funcs = {}
            for node in ast.walk(tree):
                if isinstance(node, (ast.FunctionDef, ast.AsyncFunctionDef)):
                    body = [l for l in missed if node.lineno < l <= node.end_lineno]
                    if body:
                        funcs[f'{node.name}@{node.lineno}'] = body
            print(f'{rel}: {len(lines) - len(missed)}/{len(lines)} lines executed')
            for fn, body in sorted(funcs.items(), key=lambda kv: kv[1][0]):
                print(f'    {fn}: lines {body[:12]}{"..." if len(body) > 12 else ""}')
    print(f'TOTAL {total - missed_total}/{total} executable lines executed by at least one check')
    if '--by-check' in sys.argv:
        for c in sorted(per_check):
            print(c, len(per_check[c]))


if __name__ == '__main__':
    main()
