"""Invariant-at-a-hook monitor on the seven built-in transition functions.

`install` wraps every registry entry *and* module attribute, so each part of a
chain (and of every environment built afterwards) is observed individually:
the pre-state is snapshotted, the real function runs, and the post-state is
analysed against the reference model (refmodel.py) and the order-agnostic local
rules.  Findings are tagged by aspect; C08/C09/C10/C11 each report their own.
"""
from . import boot  # noqa: F401
import collections

import numpy as np

from gym_gridverse.action import Action
from gym_gridverse.envs import transition_functions as transition_fs
from gym_gridverse.grid_object import (
    Box,
    Door,
    Floor,
    Key,
    MovingObstacle,
    NoneGridObject,
    Telepod,
)

from . import enc, refmodel
from .monitor import describe_exc, raised_by_harness

FUNCTIONS = ['move_agent', 'turn_agent', 'pickndrop', 'move_obstacles', 'actuate_door', 'actuate_box', 'teleport']


def strip_status(e):
    """object encoding with the door status removed (status is not identity)"""
    if e[0] == 'Door':
        return ('Door', None, e[2])
    if e[0] == 'Box':
        return ('Box', e[1], e[2], strip_status(e[3]))
    return e


def multiset(rows_enc, held_enc):
    m = collections.Counter(strip_status(e) for e in rows_enc if e[0] != 'Floor')
    if held_enc[0] not in ('NoneGridObject', 'Floor'):
        m[strip_status(held_enc)] += 1
    return m


class Call:
    """one observed call of a transition function"""

    __slots__ = ('fn', 'pre', 'pre_enc', 'action', 'post_enc', 'exc', 'rng_state', 'diffs')

    def payload(self):
        return {
            'fn': self.fn,
            'state': _ref_to_json(self.pre),
            'action': self.action.name,
            'rng_state': self.rng_state,
        }


def _ref_to_json(m):
    return {
        'grid': [[enc.obj_to_json(o) for o in row] for row in m.rows],
        'agent': {'y': m.y, 'x': m.x, 'o': m.heading.name, 'held': enc.obj_to_json(m.held)},
    }


def _bitgen_state(rng):
    try:
        st = rng.bit_generator.state
        return {'bit_generator': st['bit_generator'],
                'state': {k: int(v) for k, v in st['state'].items()},
                'has_uint32': int(st['has_uint32']), 'uinteger': int(st['uinteger'])}
    except Exception:
        return None


def restore_rng(rng_state):
    rng = np.random.default_rng(0)
    if rng_state:
        rng.bit_generator.state = rng_state
    return rng


def analyse(call):
    """[(aspect, key, message)] for one observed call"""
    out = []
    fn, pre, action = call.fn, call.pre, call.action
    (h, w, cells0), (y0, x0, o0, held0) = call.pre_enc
    if call.exc is not None:
        out.append(('total', f'raises.{fn}', f'{fn}({action.name}) raised {describe_exc(call.exc)}'))
        return out
    (h1, w1, cells1), (y1, x1, o1, held1) = call.post_enc
    if (h1, w1) != (h, w):
        out.append(('conservation', f'{fn}.shape', f'{fn} changed the grid shape'))
        return out
    diffs = [(i // w, i % w, cells0[i], cells1[i]) for i in range(h * w) if cells0[i] != cells1[i]]
    call.diffs = diffs
    fy, fx = pre.front()
    front_in = pre.inside(fy, fx)

    # ---- pose (C08)
    moved = (y1, x1) != (y0, x0)
    turned = o1 != o0
    if fn in ('move_agent', 'turn_agent'):
        m = refmodel.RefState.__new__(refmodel.RefState)
        m.rows, m.y, m.x, m.heading, m.held, m.h, m.w = pre.rows, pre.y, pre.x, pre.heading, pre.held, pre.h, pre.w
        ry, rx, rhead = pre.y, pre.x, pre.heading
        refmodel.REF_TRANSITIONS[fn](m, action)
        exp = (m.y, m.x, m.heading.name)
        m.y, m.x, m.heading = ry, rx, rhead  # pre is shared: restore
        if (y1, x1, o1) != exp:
            out.append(('pose', f'{fn}.pose',
                        f'{fn}({action.name}) from ({y0},{x0},{o0}) gave ({y1},{x1},{o1}), reference {exp}'))
    elif fn == 'teleport':
        on_pod = isinstance(pre.rows[y0][x0], Telepod)
        if turned or (moved and not on_pod):
            out.append(('pose', 'teleport.pose', f'teleport({action.name}) changed the pose of an agent not on a telepod: '
                        f'({y0},{x0},{o0}) -> ({y1},{x1},{o1})'))
        elif moved and 0 <= y1 < h and 0 <= x1 < w:
            # teleportation sends the agent to another telepod of the same colour, nowhere else
            dest, src = pre.rows[y1][x1], pre.rows[y0][x0]
            if not (isinstance(dest, Telepod) and dest.color == src.color):
                out.append(('pose', 'teleport.destination', f'teleport({action.name}) sent the agent from the {src.color.name} telepod at '
                            f'({y0},{x0}) to ({y1},{x1}), which holds {enc.eo(dest)} - not a telepod of that colour'))
    else:
        if moved or turned:
            out.append(('pose', f'{fn}.pose', f'{fn}({action.name}) changed the pose ({y0},{x0},{o0}) -> ({y1},{x1},{o1})'))
    if not (0 <= y1 < h and 0 <= x1 < w):
        out.append(('pose', f'{fn}.outside', f'{fn}({action.name}) left the agent outside the grid at ({y1},{x1})'))

    # ---- full reference for the deterministic functions (C09 pickndrop, C10 door/box)
    if fn in refmodel.REF_TRANSITIONS:
        m = refmodel.RefState.__new__(refmodel.RefState)
        m.rows = [list(r) for r in pre.rows]
        m.y, m.x, m.heading, m.held, m.h, m.w = pre.y, pre.x, pre.heading, pre.held, pre.h, pre.w
        door = None
        if fn == 'actuate_door' and front_in and isinstance(pre.rows[fy][fx], Door):
            door = pre.rows[fy][fx]
            saved = door.state
        refmodel.REF_TRANSITIONS[fn](m, action)
        exp = m.encoding()
        if door is not None:
            door.state = saved  # the reference opened pre's own door object: restore
        if exp != call.post_enc:
            aspect = {'pickndrop': 'pickndrop_ref', 'actuate_door': 'door', 'actuate_box': 'box'}.get(fn, 'pose')
            if aspect != 'pose':
                out.append((aspect, f'{fn}.reference', f'{fn}({action.name}) differs from the reference model: '
                            + _describe_diff(call, exp)))

    # ---- conservation (C09)
    m0, m1 = multiset(cells0, held0), multiset(cells1, held1)
    expected = m0
    if fn == 'actuate_box' and action is Action.ACTUATE and front_in and isinstance(pre.rows[fy][fx], Box):
        expected = collections.Counter(m0)
        be = strip_status(enc.eo(pre.rows[fy][fx]))
        expected[be] -= 1
        if expected[be] <= 0:
            del expected[be]
        ce = strip_status(enc.eo(pre.rows[fy][fx].content))
        if ce[0] != 'Floor':
            expected[ce] += 1
    if m1 != expected:
        lost = expected - m1
        gained = m1 - expected
        out.append(('conservation', f'{fn}.multiset',
                    f'{fn}({action.name}) changed the multiset of objects: lost {dict(lost)}, gained {dict(gained)}'))
    # scenery never moves: a changed cell may only involve holdables (pickndrop at the front cell),
    # obstacles swapping with floor, a door changing status in place, a box giving way to its content
    for (y, x, a, b) in diffs:
        ok = False
        if fn == 'pickndrop' and (y, x) == (fy, fx):
            ok = True  # decided by the pickndrop reference
        elif fn == 'move_obstacles' and {a[0], b[0]} == {'MovingObstacle', 'Floor'}:
            ok = True  # decided by C11's local rules
        elif a[0] == 'Door' and b[0] == 'Door' and strip_status(a) == strip_status(b):
            ok = True  # status change: decided by the door rules
        elif a[0] == 'Box' and fn == 'actuate_box' and (y, x) == (fy, fx) and b == a[3]:
            ok = True
        if not ok:
            out.append(('scenery', f'{fn}.cell_changed',
                        f'{fn}({action.name}) changed cell ({y},{x}) from {a} to {b} (agent at ({y0},{x0}) facing {o0})'))
    if fn != 'pickndrop' and held0 != held1:
        out.append(('key', f'{fn}.held_changed', f'{fn}({action.name}) changed the held item {held0} -> {held1}'))

    # ---- doors and boxes respond only to a faced ACTUATE (C10)
    for (y, x, a, b) in diffs:
        if a[0] == 'Door' and b[0] == 'Door' and strip_status(a) == strip_status(b):
            legal = (
                fn == 'actuate_door' and action is Action.ACTUATE and (y, x) == (fy, fx)
                and b[1] == Door.Status.OPEN.value
                and (a[1] == Door.Status.CLOSED.value
                     or (a[1] == Door.Status.LOCKED.value and held0[0] == 'Key' and held0[2] == a[2]))
            )
            if not legal:
                out.append(('door', f'{fn}.door_status',
                            f'{fn}({action.name}) changed door at ({y},{x}) {a} -> {b}; agent ({y0},{x0}) facing {o0} '
                            f'front ({fy},{fx}) holding {held0}'))
        elif a[0] == 'Box' and not (fn == 'pickndrop' and (y, x) == (fy, fx)):
            legal = fn == 'actuate_box' and action is Action.ACTUATE and (y, x) == (fy, fx) and b == a[3]
            if not legal:
                out.append(('box', f'{fn}.box_changed', f'{fn}({action.name}) changed box at ({y},{x}) {a} -> {b}'))
        elif a[0] == 'Door' and not (fn == 'pickndrop' and (y, x) == (fy, fx)):
            out.append(('door', f'{fn}.door_replaced', f'{fn}({action.name}) replaced door at ({y},{x}) by {b}'))
    return out


def _describe_diff(call, exp):
    (h, w, cells_e), agent_e = exp
    (_, _, cells_r), agent_r = call.post_enc
    parts = []
    for i in range(h * w):
        if cells_e[i] != cells_r[i]:
            parts.append(f'cell ({i // w},{i % w}) real {cells_r[i]} expected {cells_e[i]}')
    if agent_e != agent_r:
        parts.append(f'agent real {agent_r} expected {agent_e}')
    (_, _, cells0), a0 = call.pre_enc
    return '; '.join(parts[:4]) + f' [pre agent {a0}]'


class Sink:
    """receives every observed call; subclasses/readers pick their aspects"""

    def __init__(self, ctx, aspects, kind='fn_case', on_call=None):
        self.ctx = ctx
        self.aspects = set(aspects)
        self.kind = kind
        self.on_call = on_call
        self.enabled = True
        self.context_label = ''

    def observe(self, call):
        if not self.enabled:
            return
        ctx = self.ctx
        ctx.hit('fn.' + call.fn)
        for aspect, key, message in analyse(call):
            if aspect in self.aspects:
                ctx.violation(aspect, key, (self.context_label + ' ' + message).strip(), self.kind, call.payload())
        if self.on_call is not None:
            self.on_call(call)


def install(patch, sink):
    reg = transition_fs.transition_function_registry

    def make(name):
        def factory(orig):
            def wrapper(state, action, *args, **kwargs):
                if not sink.enabled:
                    return orig(state, action, *args, **kwargs)
                call = Call()
                call.fn = name
                call.pre = refmodel.RefState(state)
                call.pre_enc = call.pre.encoding()
                call.action = action
                call.exc = None
                call.diffs = None
                call.rng_state = _bitgen_state(kwargs.get('rng')) if kwargs.get('rng') is not None else None
                try:
                    result = orig(state, action, *args, **kwargs)
                except Exception as e:
                    if raised_by_harness(e):
                        raise
                    call.exc = e
                    call.post_enc = None
                    sink.observe(call)
                    raise
                call.post_enc = enc.es(state)
                sink.observe(call)
                return result

            return wrapper

        return factory

    for name in FUNCTIONS:
        patch.registry_and_module(reg, transition_fs, name, make(name))


def replay_call(ctx, payload, aspects):
    """re-run one recorded call of a transition function against the current tree"""
    from .monitor import Patch

    sink = Sink(ctx, aspects)
    with Patch() as patch:
        install(patch, sink)
        fn = transition_fs.transition_function_registry[payload['fn']]
        state = enc.state_from_json(payload['state'])
        rng = restore_rng(payload.get('rng_state'))
        ctx.ev()
        try:
            fn(state, Action[payload['action']], rng=rng)
        except Exception as e:
            if raised_by_harness(e):
                raise
