#!/usr/bin/env python3
"""Runs the checks against behaviour-preserving changes of the repository (benign/<id>/patch.diff): every check has to
stay silent (exit 0 - neither a violation nor an inconclusive run).  The counterpart of tools/seeded.py / tools/mutants.py.

    tools/benign.py [<id> ...] [--props C01,C02|all] [--tier quick] [--seed N]
    tools/benign.py import <id> <property> <patch.diff> <demo.py> <notes.txt>
        (files a property-preserving change written by an independent sub-agent: the repository's suite passes with it,
         and its demonstration - a program checking the property itself - passes with and without the change)
"""
import argparse
import json
import os
import subprocess
import sys
import time

HERE = os.path.dirname(os.path.dirname(os.path.abspath(__file__)))
sys.path.insert(0, os.path.join(HERE, 'tools'))
from seeded import ALL, Scratch, sh  # noqa: E402

BENIGN = os.path.join(HERE, 'benign')


def do_import(argv):
    import shutil
    from seeded import run_demo
    bid, prop, patch, demo, notes = argv
    d = os.path.join(BENIGN, bid)
    os.makedirs(d, exist_ok=True)
    shutil.copy(patch, os.path.join(d, 'patch.diff'))
    shutil.copy(demo, os.path.join(d, 'demo.py'))
    meta = {'id': bid, 'property': prop, 'author': 'independent sub-agent (saw only the property text and a scratch worktree)',
            'what': open(notes).read() if os.path.exists(notes) else '', 'ran': {}}
    with Scratch(os.path.join(d, 'patch.diff')) as wt:
        base = sh(os.path.join(HERE, 'tools', 'baseline_off.sh'), env=dict(os.environ, GV_REPO=wt))
        meta['suite_passes_with_change'] = base.returncode == 0
        rc, out = run_demo(os.path.join(d, 'demo.py'), wt)
        meta['ran']['demo_with_change'] = {'exit': rc, 'tail': out[-300:]}
    rc0, out0 = run_demo(os.path.join(d, 'demo.py'), '/repo')
    meta['ran']['demo_unchanged'] = {'exit': rc0, 'tail': out0[-200:]}
    meta['confirmed'] = bool(meta['suite_passes_with_change'] and rc == 0 and rc0 == 0)
    json.dump(meta, open(os.path.join(d, 'meta.json'), 'w'), indent=1)
    print(f"{bid}: suite_passes={meta['suite_passes_with_change']} demo_with_change_exit={rc} demo_unchanged_exit={rc0} confirmed={meta['confirmed']}")
    return 0 if meta['confirmed'] else 1


def main():
    if len(sys.argv) > 1 and sys.argv[1] == 'import':
        sys.exit(do_import(sys.argv[2:]))
    ap = argparse.ArgumentParser()
    ap.add_argument('ids', nargs='*')
    ap.add_argument('--props', default='all')
    ap.add_argument('--tier', default='quick')
    ap.add_argument('--seed', type=int, default=0)
    a = ap.parse_args()
    rc = 0
    for bid in a.ids or sorted(os.listdir(BENIGN)):
        d = os.path.join(BENIGN, bid)
        mp = os.path.join(d, 'meta.json')
        if not os.path.exists(mp):
            continue
        meta = json.load(open(mp))
        props = ALL if a.props == 'all' else a.props.split(',')
        results = meta.setdefault('checks', {})
        with Scratch(os.path.join(d, 'patch.diff')) as wt:
            if 'suite_passes_with_change' not in meta:
                base = sh(os.path.join(HERE, 'tools', 'baseline_off.sh'), env=dict(os.environ, GV_REPO=wt))
                meta['suite_passes_with_change'] = base.returncode == 0
            for p in props:
                t0 = time.time()
                env = dict(os.environ, GV_REPO=wt, GV_NO_EVIDENCE='1', VERIF_SEED=str(a.seed))
                c = sh(f'{HERE}/check {p} --tier {a.tier}', env=env)
                lines = [l for l in c.stdout.splitlines() if l.startswith(('VIOLATION', 'INCONCLUSIVE', '  monitor='))]
                results[f'{p}.{a.tier}'] = {'exit': c.returncode, 'wall_s': round(time.time() - t0, 1), 'lines': [l[:300] for l in lines[:4]]}
        noisy = sorted(k for k, v in results.items() if v['exit'] != 0)
        meta['alarms'] = noisy
        json.dump(meta, open(mp, 'w'), indent=1)
        print(f"{bid:28s} suite_passes={meta['suite_passes_with_change']} checks_silent={len(results) - len(noisy)}/{len(results)} alarms={noisy}")
        for k in noisy:
            for l in results[k]['lines'][:2]:
                print('     ', k, l[:220])
        rc |= bool(noisy)
    sys.exit(rc)


if __name__ == '__main__':
    main()
