#!/usr/bin/env python3
"""Confirms and files a seeded change produced by an independent sub-agent.

    tools/seeded.py import <id> <property> <patch.diff> <demo.py> <notes.txt>   # confirm + store under seeded/<id>/
    tools/seeded.py run [<id> ...] [--props C01,C02|all] [--tier quick]          # run checks against stored changes

Confirmation = on a fresh scratch worktree of /repo (mktemp, removed afterwards):
the patch applies, the repository's own suite still passes (1017), the
demonstration fails with the patch and passes on the unchanged tree.  Checks
are run with GV_REPO pointing at the scratch worktree and GV_NO_EVIDENCE=1, so
/repo and the committed evidence are never touched.
"""
import argparse
import json
import os
import shutil
import subprocess
import sys
import tempfile
import time

HERE = os.path.dirname(os.path.dirname(os.path.abspath(__file__)))
SEEDED = os.path.join(HERE, 'seeded')
ALL = [f'C{i:02d}' for i in range(1, 21)]


def sh(cmd, **kw):
    return subprocess.run(cmd, shell=True, capture_output=True, text=True, **kw)


class Scratch:
    def __init__(self, patch=None):
        self.patch = patch

    def __enter__(self):
        self.tmp = tempfile.mkdtemp(prefix='gvseed_')
        self.wt = os.path.join(self.tmp, 'repo')
        r = sh(f'git -C /repo worktree add --detach {self.wt} HEAD')
        assert r.returncode == 0, r.stderr
        if self.patch:
            r = sh(f'git -C {self.wt} apply {self.patch}')
            if r.returncode != 0:  # the repository moved on (a later fix: commit touched the same lines): three-way merge
                r = sh(f'git -C {self.wt} apply -3 {self.patch}')
            assert r.returncode == 0, 'patch does not apply: ' + r.stderr
        return self.wt

    def __exit__(self, *a):
        sh(f'git -C /repo worktree remove --force {self.wt}')
        shutil.rmtree(self.tmp, ignore_errors=True)
        sh('git -C /repo worktree prune')


def run_demo(demo, repo):
    env = dict(os.environ, PYTHONPATH=f'{HERE}/vendor:{repo}', PYTHONDONTWRITEBYTECODE='1')
    p = sh(f'cd /tmp && /venv/bin/python -W ignore {demo}', env=env, timeout=600)
    return p.returncode, (p.stdout + p.stderr)[-600:]


def do_import(a):
    sid, prop = a.id, a.property
    d = os.path.join(SEEDED, sid)
    os.makedirs(d, exist_ok=True)
    shutil.copy(a.patch, os.path.join(d, 'patch.diff'))
    shutil.copy(a.demo, os.path.join(d, 'demo.py'))
    notes = open(a.notes).read() if a.notes and os.path.exists(a.notes) else ''
    meta = {'id': sid, 'property': prop, 'author': 'independent sub-agent (saw only the property text and a scratch worktree)',
            'needs_to_manifest': notes, 'ran': {}}
    with Scratch(os.path.join(d, 'patch.diff')) as wt:
        base = sh(os.path.join(HERE, 'tools', 'baseline_off.sh'), env=dict(os.environ, GV_REPO=wt))
        meta['ran']['repo_suite_with_change'] = base.stdout.strip().splitlines()[-2:]
        meta['suite_passes_with_change'] = base.returncode == 0
        rc, out = run_demo(os.path.join(d, 'demo.py'), wt)
        meta['ran']['demo_with_change'] = {'exit': rc, 'tail': out[-300:]}
    rc0, out0 = run_demo(os.path.join(d, 'demo.py'), '/repo')
    meta['ran']['demo_unchanged'] = {'exit': rc0, 'tail': out0[-200:]}
    meta['confirmed'] = bool(meta['suite_passes_with_change'] and rc != 0 and rc0 == 0)
    json.dump(meta, open(os.path.join(d, 'meta.json'), 'w'), indent=1)
    print(f"{sid}: suite_passes={meta['suite_passes_with_change']} demo_with_change_exit={rc} demo_unchanged_exit={rc0} "
          f"confirmed={meta['confirmed']}")
    return 0 if meta['confirmed'] else 1


def do_run(a):
    ids = a.ids or sorted(os.listdir(SEEDED))
    for sid in ids:
        d = os.path.join(SEEDED, sid)
        mp = os.path.join(d, 'meta.json')
        if not os.path.exists(mp):
            continue
        meta = json.load(open(mp))
        props = ALL if a.props == 'all' else (a.props.split(',') if a.props else [meta['property']])
        results = meta.setdefault('checks', {})
        with Scratch(os.path.join(d, 'patch.diff')) as wt:
            for p in props:
                t0 = time.time()
                env = dict(os.environ, GV_REPO=wt, GV_NO_EVIDENCE='1', VERIF_SEED=str(a.seed))
                c = sh(f'{HERE}/check {p} --tier {a.tier}', env=env)
                keys = sorted({l.split('key=')[1].split(':')[0] for l in c.stdout.splitlines() if 'key=' in l})
                results[f'{p}.{a.tier}'] = {'exit': c.returncode, 'keys': keys[:5], 'wall_s': round(time.time() - t0, 1)}
        caught = sorted(k for k, v in results.items() if v['exit'] == 1)
        meta['caught_by'] = caught
        json.dump(meta, open(mp, 'w'), indent=1)
        own = results.get(f"{meta['property']}.{a.tier}", {}).get('exit')
        print(f"{sid:24s} property={meta['property']} own_check_exit={own} caught_by={caught}")


def main():
    ap = argparse.ArgumentParser()
    sub = ap.add_subparsers(dest='cmd')
    i = sub.add_parser('import')
    for n in ('id', 'property', 'patch', 'demo', 'notes'):
        i.add_argument(n)
    r = sub.add_parser('run')
    r.add_argument('ids', nargs='*')
    r.add_argument('--props')
    r.add_argument('--tier', default='quick')
    r.add_argument('--seed', type=int, default=0)
    a = ap.parse_args()
    sys.exit(do_import(a) if a.cmd == 'import' else do_run(a))


if __name__ == '__main__':
    main()
