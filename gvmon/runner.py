"""Check driver: shards a property's workload over child interpreters, merges
what the monitors observed, applies the known-findings list, writes evidence.

    python -m gvmon.runner Cxx [--tier quick|thorough] [--replay PATH]

exit 0: every deciding monitor was reached and none fired (known findings are
        printed as KNOWN-FINDING lines)
exit 1: at least one unlisted violation (VIOLATION property=.. replay=..)
exit 2: inconclusive (monitor never reached, shard timed out, harness error)
"""
import argparse
import collections
import importlib
import json
import os
import random
import shutil
import subprocess
import sys
import tempfile
import time
import traceback

VERIF = os.path.dirname(os.path.dirname(os.path.abspath(__file__)))
PY = os.environ.get('GV_PYTHON', '/venv/bin/python')
MAX_VIOLATIONS_KEPT = 40
MAX_DISTINCT_SENT = 400000


class Ctx:
    """what one shard hands to the property module"""

    def __init__(self, prop, tier, seed, shard, nshards):
        self.prop = prop
        self.tier = tier
        self.seed = seed
        self.shard = shard
        self.nshards = nshards
        self.rng = random.Random(repr((prop, seed, shard)))
        self.evaluations = 0
        self.distinct = set()
        self.hits = collections.Counter()
        self.categories = collections.Counter()
        self.samples = []
        self._sample_kinds = collections.Counter()
        self.violations = []
        self.violation_count = 0
        self.inconclusive = []
        self.extra = {}
        self.reach = {}
        self.t0 = time.time()
        self.deadline = None
        self.debug_toggle = False
        self._debug_phase = 0
        self._set_debug = lambda flag: None

    @property
    def thorough(self):
        return self.tier == 'thorough'

    def pick(self, quick, thorough):
        return thorough if self.thorough else quick

    def mine(self, index):
        """static partition of an enumerated space across shards"""
        return index % self.nshards == self.shard

    def ev(self, n=1):
        self.evaluations += n
        # modules that opt in (DEBUG_TOGGLE = True) run under both values of the library debug flag: the flag is flipped
        # every 97 monitored executions (the properties must hold with the flag on or off)
        if self.debug_toggle and (self.evaluations // 97) % 2 != self._debug_phase:
            self._debug_phase = (self.evaluations // 97) % 2
            self._set_debug(self._debug_phase == 0)
            self.hits['debug_flag.off' if self._debug_phase else 'debug_flag.on'] += 1

    def hit(self, name, n=1):
        self.hits[name] += n

    def cat(self, name, n=1):
        self.categories[name] += n

    def nontrivial(self, key):
        """record a distinct non-trivial case (by canonical encoding)"""
        from .enc import h64

        self.distinct.add(h64(key))

    def sample(self, kind, value, per_kind=2):
        if self._sample_kinds[kind] < per_kind:
            self._sample_kinds[kind] += 1
            self.samples.append({'kind': kind, 'case': value})

    def add(self, key, n=1):
        self.extra[key] = self.extra.get(key, 0) + n

    def addset(self, key, value):
        s = self.extra.setdefault(key, [])
        if value not in s:
            s.append(value)

    def violation(self, monitor, key, message, kind, payload):
        """record a violation.  `key` is the mechanism key matched against
        KNOWN_FINDINGS.txt (never a seed or a hash); `kind`/`payload` replay it."""
        self.violation_count += 1
        if len(self.violations) < MAX_VIOLATIONS_KEPT and not any(
            v['monitor'] == monitor and v['key'] == key and v['message'] == message
            for v in self.violations
        ):
            record = {
                'monitor': monitor,
                'key': key,
                'message': message,
                'kind': kind,
                'payload': payload,
            }
            if self.debug_toggle:
                try:
                    from gym_gridverse.debugging import gv_debug
                    record['debug_flag'] = bool(gv_debug())
                    record['message'] = message + f' [library debug flag {"on" if record["debug_flag"] else "off"}]'
                except Exception:
                    pass
            self.violations.append(record)

    def inconc(self, reason):
        if len(self.inconclusive) < 20:
            self.inconclusive.append(reason)

    def out_of_time(self, frac=1.0):
        return self.deadline is not None and time.time() > self.t0 + (self.deadline - self.t0) * frac

    def result(self):
        distinct = list(self.distinct)
        truncated = False
        if len(distinct) > MAX_DISTINCT_SENT:
            distinct = distinct[:MAX_DISTINCT_SENT]
            truncated = True
        return {
            'status': 'ok',
            'shard': self.shard,
            'evaluations': self.evaluations,
            'distinct': distinct,
            'distinct_truncated': truncated,
            'hits': dict(self.hits),
            'categories': dict(self.categories),
            'samples': self.samples,
            'violations': self.violations,
            'violation_count': self.violation_count,
            'inconclusive': self.inconclusive,
            'extra': self.extra,
            'reach': self.reach,
            'wall_s': round(time.time() - self.t0, 2),
        }


def load_prop(prop):
    return importlib.import_module(f'gvmon.props.{prop.lower()}')


# ------------------------------------------------------------------ shard side


def _start_line_coverage(prop, shard):
    """GV_COVERAGE_DIR=<dir>: record which lines of the repository this shard executed (sys.monitoring, each line reported
    once, so the cost is negligible); tools/coverage_report.py merges the files.  A planning aid, not a verdict."""
    d = os.environ.get('GV_COVERAGE_DIR')
    if not d or not hasattr(sys, 'monitoring'):
        return None
    from . import boot
    mon = sys.monitoring
    tool = 4
    seen = set()
    prefix = os.path.join(boot.REPO, 'gym_gridverse')

    def on_line(code, line):
        if code.co_filename.startswith(prefix):
            seen.add((code.co_filename[len(boot.REPO) + 1:], line))
        return mon.DISABLE
    mon.use_tool_id(tool, 'gvmon-coverage')
    mon.register_callback(tool, mon.events.LINE, on_line)
    mon.set_events(tool, mon.events.LINE)

    def dump():
        mon.set_events(tool, 0)
        os.makedirs(d, exist_ok=True)
        with open(os.path.join(d, f'{prop}.{shard}.json'), 'w') as f:
            json.dump(sorted(seen), f)
    return dump


def shard_main(prop, tier, seed, shard, nshards, out, budget_s):
    res = None
    dump_cov = _start_line_coverage(prop, shard)
    try:
        mod = load_prop(prop)
        ctx = Ctx(prop, tier, seed, shard, nshards)
        ctx.deadline = ctx.t0 + budget_s
        if getattr(mod, 'DEBUG_TOGGLE', False):
            from gym_gridverse.debugging import reset_gv_debug
            ctx.debug_toggle = True
            ctx._set_debug = reset_gv_debug
        mod.run(ctx)
        res = ctx.result()
    except BaseException:  # harness error: inconclusive, never a violation
        tb = traceback.format_exc()[-6000:]
        res = {'status': 'error', 'shard': shard, 'traceback': tb}
        try:
            # what the monitors observed before the harness failed is kept (a violation recorded on a real execution stays
            # a violation; the crash itself only ever makes the run inconclusive)
            partial = ctx.result()
            partial.update(status='error', traceback=tb, partial=True)
            res = partial
        except BaseException:
            pass
    with open(out, 'w') as f:
        json.dump(res, f, default=str)
    if dump_cov:
        dump_cov()
    return 0


# ------------------------------------------------------------------ parent side


def read_known_findings():
    path = os.path.join(VERIF, 'KNOWN_FINDINGS.txt')
    open_entries = []
    if os.path.exists(path):
        for line in open(path):
            line = line.strip()
            if not line or line.startswith('#'):
                continue
            if line.startswith('open:'):
                fields = dict(
                    tok.split('=', 1) for tok in line[5:].split() if '=' in tok and tok.split('=', 1)[0] in ('property', 'key')
                )
                rest = line[5:].strip()
                open_entries.append({'property': fields.get('property'), 'key': fields.get('key'), 'text': rest})
    return open_entries


def child_env(seed, shard, extra=None):
    env = dict(os.environ)
    repo = env.get('GV_REPO', '/repo')
    env['PYTHONPATH'] = os.pathsep.join([VERIF, os.path.join(VERIF, 'vendor'), repo])
    env['PYTHONDONTWRITEBYTECODE'] = '1'
    env['PYTHONHASHSEED'] = str((seed * 7919 + shard * 104729 + 17) % 4294967295)
    env['GYM_GRIDVERSE_VERIF'] = '1'
    env.setdefault('OMP_NUM_THREADS', '1')
    env.setdefault('OPENBLAS_NUM_THREADS', '1')
    if extra:
        env.update(extra)
    return env


def merge_extra(into, new):
    for k, v in new.items():
        if isinstance(v, bool):
            into[k] = into.get(k, True) and v
        elif isinstance(v, (int, float)):
            into[k] = into.get(k, 0) + v
        elif isinstance(v, list):
            cur = into.setdefault(k, [])
            for x in v:
                if x not in cur and len(cur) < 200:
                    cur.append(x)
        elif isinstance(v, dict):
            cur = into.setdefault(k, {})
            merge_extra(cur, v)
        else:
            into[k] = v


def run_check(prop, tier, seed):
    t0 = time.time()
    mod = load_prop(prop)
    nshards = mod.SHARDS.get(tier, 1) if isinstance(mod.SHARDS, dict) else mod.SHARDS
    ncpu = os.cpu_count() or 4
    nshards = max(1, min(nshards, ncpu))
    budget = mod.BUDGET_S.get(tier, 120)  # logical soft budget handed to the shard
    timeout = max(900, budget * 4)  # generous wall-clock watchdog: firing => inconclusive
    tmp = tempfile.mkdtemp(prefix=f'gvmon_{prop}_')
    procs = []
    try:
        for i in range(nshards):
            out = os.path.join(tmp, f'shard{i}.json')
            cmd = [
                PY,
                '-m',
                'gvmon.runner',
                prop,
                '--tier',
                tier,
                '--shard',
                str(i),
                str(nshards),
                out,
                '--budget',
                str(budget),
            ]
            env = child_env(seed, i)
            env['VERIF_SEED'] = str(seed)
            env['VERIF_TIER'] = tier
            p = subprocess.Popen(cmd, env=env, cwd=VERIF, stdout=subprocess.PIPE, stderr=subprocess.PIPE)
            procs.append((i, p, out))
        results = []
        problems = []
        for i, p, out in procs:
            remaining = max(1, timeout - (time.time() - t0))
            try:
                so, se = p.communicate(timeout=remaining)
            except subprocess.TimeoutExpired:
                p.kill()
                p.communicate()
                problems.append(f'shard {i} exceeded the wall-clock watchdog ({timeout}s)')
                continue
            if not os.path.exists(out):
                problems.append(
                    f'shard {i} wrote no result (exit {p.returncode}): ' + (se.decode(errors="replace")[-1500:])
                )
                continue
            r = json.load(open(out))
            if r.get('status') != 'ok':
                problems.append(f'shard {i} harness error:\n{r.get("traceback", "")}')
                if not r.get('partial'):
                    continue
            results.append(r)
    finally:
        shutil.rmtree(tmp, ignore_errors=True)

    merged = {
        'evaluations': 0,
        'distinct': set(),
        'hits': collections.Counter(),
        'categories': collections.Counter(),
        'samples': [],
        'violations': [],
        'violation_count': 0,
        'inconclusive': [],
        'extra': {},
        'reach': {},
        'truncated': False,
    }
    for r in results:
        merged['evaluations'] += r['evaluations']
        merged['distinct'].update(r['distinct'])
        merged['truncated'] |= r.get('distinct_truncated', False)
        merged['hits'].update(r['hits'])
        merged['categories'].update(r['categories'])
        if len(merged['samples']) < 8:
            merged['samples'].extend(r['samples'][: 8 - len(merged['samples'])])
        merged['violations'].extend(r['violations'])
        merged['violation_count'] += r['violation_count']
        merged['inconclusive'].extend(r['inconclusive'])
        merge_extra(merged['extra'], r['extra'])
        for fn, (lines, total) in r['reach'].items():
            cur = merged['reach'].setdefault(fn, [set(), total])
            cur[0].update(lines)

    problems.extend(merged['inconclusive'])
    # deciding monitors that were never (or too rarely) reached => inconclusive
    required = mod.REQUIRED.get(tier, mod.REQUIRED.get('quick', {})) if hasattr(mod, 'REQUIRED') else {}
    if results:
        for name, minimum in required.items():
            got = merged['hits'].get(name, 0)
            if got < minimum:
                problems.append(f'monitor {name} reached {got} < {minimum} times')

    # classify violations against the known-findings list (by mechanism key)
    known = [k for k in read_known_findings() if k['property'] == prop]
    unlisted, listed = [], collections.OrderedDict()
    for v in merged['violations']:
        match = next((k for k in known if k['key'] == v['key']), None)
        if match:
            listed.setdefault(match['key'], {'entry': match, 'count': 0, 'example': v})['count'] += 1
        else:
            unlisted.append(v)

    replay_dir = os.path.join(VERIF, 'replays', prop)
    lines = []
    seen = set()
    for v in unlisted:
        ident = (v['monitor'], v['key'])
        if ident in seen:
            continue
        seen.add(ident)
        os.makedirs(replay_dir, exist_ok=True)
        from .enc import digest

        path = os.path.join(replay_dir, digest((v['monitor'], v['key'], v['message'], v['payload'])) + '.json')
        with open(path, 'w') as f:
            json.dump({'property': prop, **v}, f, indent=1, default=str)
        lines.append(f'VIOLATION property={prop} replay={path}')
        print(f'  monitor={v["monitor"]} key={v["key"]}: {v["message"]}'[:1500])
    for key, info in listed.items():
        print(f'KNOWN-FINDING: {info["entry"]["text"]} (matched {info["count"]} witness(es) this run)')
    for line in lines:
        print(line)

    wall = round(time.time() - t0, 2)
    status = 'violated' if unlisted else ('inconclusive' if problems else 'held')
    coverage = {
        'evaluations': merged['evaluations'],
        'distinct_nontrivial': len(merged['distinct']),
        'rule': mod.RULE + (' [distinct count truncated per shard]' if merged['truncated'] else ''),
        'samples': merged['samples'] or [{'note': 'no sample recorded'}],
        'monitor_hits': dict(sorted(merged['hits'].items())),
        'categories': dict(sorted(merged['categories'].items())),
        'reach': {fn: {'lines_executed': len(v[0]), 'lines_total': v[1]} for fn, v in sorted(merged['reach'].items())},
        'shards': nshards,
        'shards_ok': len(results),
        'verdict': status,
        'inconclusive_reasons': problems[:20],
        'known_findings_matched': {k: v['count'] for k, v in listed.items()},
        'unlisted_violations': [
            {'monitor': v['monitor'], 'key': v['key'], 'message': v['message'][:400]} for v in unlisted[:10]
        ],
    }
    for k, v in merged['extra'].items():
        coverage.setdefault(k, v)
    if getattr(mod, 'EXHAUSTIVE_NOTE', None):
        coverage['exhaustive_subspaces'] = mod.EXHAUSTIVE_NOTE
    evidence = {
        'property_id': prop,
        'tier': tier,
        'seed': seed,
        'level': mod.LEVEL,
        'coverage': coverage,
        'assumptions': list(getattr(mod, 'ASSUMPTIONS', [])),
        'wall_s': wall,
        'violations': merged['violation_count'] - sum(v['count'] for v in listed.values()) if unlisted else 0,
    }
    if not os.environ.get('GV_NO_EVIDENCE'):  # set only by tools/mutants.py (runs against scratch copies)
        os.makedirs(os.path.join(VERIF, 'evidence'), exist_ok=True)
        with open(os.path.join(VERIF, 'evidence', f'{prop}.json'), 'w') as f:
            json.dump(evidence, f, indent=1, default=str, sort_keys=True)

    print(
        f'{prop} tier={tier} seed={seed}: {status}; {merged["evaluations"]} monitored executions, '
        f'{len(merged["distinct"])} distinct non-trivial cases, {nshards} shard(s), {wall}s'
    )
    top = ', '.join(f'{k}={v}' for k, v in sorted(merged['hits'].items())[:14])
    if top:
        print(f'  monitor hits: {top}')
    if unlisted:
        return 1
    if problems:
        for pb in problems[:10]:
            print(f'INCONCLUSIVE property={prop} reason={pb}'[:3000])
        return 2
    return 0


def run_replay(prop, path):
    from . import boot  # noqa: F401

    mod = load_prop(prop)
    data = json.load(open(path))
    ctx = Ctx(prop, 'quick', 0, 0, 1)
    if 'debug_flag' in data:  # replay under the value of the library debug flag at the time of the violation
        from gym_gridverse.debugging import reset_gv_debug
        reset_gv_debug(data['debug_flag'])
    mod.replay(ctx, data['kind'], data['payload'])
    hits = [v for v in ctx.violations if v['monitor'] == data.get('monitor')] or ctx.violations
    if hits:
        for v in hits[:5]:
            print(f'  monitor={v["monitor"]} key={v["key"]}: {v["message"]}'[:1500])
        print(f'VIOLATION property={prop} replay={path}')
        return 1
    print(f'{prop}: replayed case no longer violates ({ctx.evaluations} executions)')
    return 0


def main(argv=None):
    ap = argparse.ArgumentParser()
    ap.add_argument('prop')
    ap.add_argument('--tier', default=os.environ.get('VERIF_TIER', 'quick'))
    ap.add_argument('--replay')
    ap.add_argument('--shard', nargs=3)
    ap.add_argument('--budget', type=float, default=120)
    a = ap.parse_args(argv)
    prop = a.prop.upper()
    try:
        seed = int(os.environ.get('VERIF_SEED', '0') or 0)
    except ValueError:
        seed = 0
    if a.tier not in ('quick', 'thorough'):
        a.tier = 'quick'
    if a.shard:
        i, n, out = a.shard
        return shard_main(prop, a.tier, seed, int(i), int(n), out, a.budget)
    if a.replay:
        return run_replay(prop, a.replay)
    try:
        return run_check(prop, a.tier, seed)
    except Exception:
        traceback.print_exc()
        print(f'INCONCLUSIVE property={prop} reason=harness error in the driver')
        return 2


if __name__ == '__main__':
    sys.exit(main())
