#!/usr/bin/env python3
"""Self-validation of the monitors (DESIGN.md §5): applies each textual mutant of
/verif/mutants/mutants.json to a scratch git worktree of /repo (under a mktemp
directory, removed afterwards), confirms that the repository's own suite still
passes, runs the quick checks of the listed properties with GV_REPO pointing at
the worktree and records whether they fire.

    tools/mutants.py [id ...]        # default: all
"""
import json
import os
import shutil
import subprocess
import sys
import tempfile

HERE = os.path.dirname(os.path.dirname(os.path.abspath(__file__)))
SPEC = os.path.join(HERE, 'mutants', 'mutants.json')
OUT = os.path.join(HERE, 'mutants', 'results.json')


def sh(cmd, **kw):
    return subprocess.run(cmd, shell=True, capture_output=True, text=True, **kw)


def main():
    mutants = json.load(open(SPEC))
    want = set(sys.argv[1:])
    results = json.load(open(OUT)) if os.path.exists(OUT) else {}
    for m in mutants:
        if want and m['id'] not in want:
            continue
        tmp = tempfile.mkdtemp(prefix='gvmut_')
        wt = os.path.join(tmp, 'repo')
        try:
            r = sh(f'git -C /repo worktree add --detach {wt} HEAD')
            assert r.returncode == 0, r.stderr
            for ed in m['edits']:
                path = os.path.join(wt, ed['file'])
                src = open(path).read()
                assert src.count(ed['old']) == 1, (m['id'], ed['file'], src.count(ed['old']))
                open(path, 'w').write(src.replace(ed['old'], ed['new']))
            env = dict(os.environ, GV_REPO=wt)
            base = sh(os.path.join(HERE, 'tools', 'baseline_off.sh'), env=env)
            suite_ok = base.returncode == 0
            res = {'suite_passes': suite_ok, 'suite': base.stdout.strip().splitlines()[-2:], 'checks': {}}
            for prop in m['props']:
                c = sh(f'{HERE}/check {prop} --tier quick', env=dict(env, VERIF_SEED='0', GV_NO_EVIDENCE='1'))
                keys = sorted({l.split('key=')[1].split(':')[0] for l in c.stdout.splitlines() if 'key=' in l})
                res['checks'][prop] = {'exit': c.returncode, 'keys': keys[:6]}
            results[m['id']] = res
            caught = [p for p, v in res['checks'].items() if v['exit'] == 1]
            print(f"{m['id']:28s} suite_passes={suite_ok} caught_by={caught} missed_by={[p for p in m['props'] if p not in caught]}")
        finally:
            sh(f'git -C /repo worktree remove --force {wt}')
            shutil.rmtree(tmp, ignore_errors=True)
            sh('git -C /repo worktree prune')
    json.dump(results, open(OUT, 'w'), indent=1, sort_keys=True)


if __name__ == '__main__':
    main()
