"""User-defined grid objects (the documented extension point, cf. docs/tutorial and examples/) used by some workloads:
the built-in components must treat them by their *flags*, not by their type.  Importing this module registers the
two types in this process (only the property modules that call `enable` import it).

Cleats  - a second holdable type besides Key (the library's own tutorial defines such an object)
Curtain - like Box, carries data outside state_index (its opacity): equal by ==, different in behaviour
"""
from . import boot  # noqa: F401
from gym_gridverse.grid_object import Color, GridObject


class Cleats(GridObject):
    state_index = 0
    color = Color.NONE
    blocks_movement = False
    blocks_vision = False
    holdable = True

    @classmethod
    def can_be_represented_in_state(cls):
        return True

    @classmethod
    def num_states(cls):
        return 1

    def __repr__(self):
        return 'Cleats()'


class Curtain(GridObject):
    state_index = 0
    color = Color.NONE
    blocks_movement = False
    holdable = False

    def __init__(self, opaque=False):
        self.opaque = bool(opaque)
        super().__init__()

    @property
    def blocks_vision(self):
        return self.opaque

    @classmethod
    def can_be_represented_in_state(cls):
        return False

    @classmethod
    def num_states(cls):
        return 1

    def verif_extra(self):
        return ('opaque', self.opaque)

    def __repr__(self):
        return f'Curtain({self.opaque})'


def enable(cleats=False, curtain=False):
    """add the custom types to the generators' type pool of this process"""
    from . import gen
    if cleats and Cleats not in gen.GRID_TYPES:
        gen.GRID_TYPES.append(Cleats)
        gen.HOLDABLE_TYPES.append(Cleats)
    if curtain and Curtain not in gen.GRID_TYPES:
        gen.GRID_TYPES.append(Curtain)
    return Cleats, Curtain
