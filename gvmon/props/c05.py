"""C05 — observations are sound: they never show anything that is not there.
See DESIGN.md §2 C05."""
from .. import boot  # noqa: F401
import numpy as np

from gym_gridverse.agent import Agent
from gym_gridverse.envs import observation_functions as observation_fs
from gym_gridverse.geometry import Area, Orientation, Position
from gym_gridverse import grid as grid_mod
from gym_gridverse.grid_object import Hidden, Key, Color, NoneGridObject
from gym_gridverse.state import State

from .. import compose, enc, gen, obsgen, refmodel, workloads
from ..monitor import call_real, describe_exc, exc_site, reach

ID = 'C05'
LEVEL = 'exploration'
DEBUG_TOGGLE = True  # runner flips the library debug flag every 97 monitored executions
TECHNIQUE = 'runtime monitoring: reference-model monitor of view geometry (own heading tables: view cell (i,j) -> world cell) on every observation produced by the real observation functions; exhaustive pose x area product on a 3x4 grid each run'
LEVEL_TEXT = ('Every observation returned by the real (factory-built) observation functions is checked cell by cell against a '
              'first-principles map view cell -> world cell: the cell must be Hidden or deep-equal to that world cell, cells '
              'outside the grid Hidden, the view has the area\'s shape, the agent sits at the anchor facing forward with the held '
              'item unchanged, and fully_transparent hides no in-grid cell. All 48 poses of a 3x4 grid of pairwise distinct '
              'objects x all 81 areas within [-2,2]^2 x all functions are enumerated each run; random grids up to 9x9 with '
              'asymmetric and degenerate areas, and every observation of shipped-config trajectories, are sampled.')
LEVEL_NOTE = ('Trusted: refmodel.view_to_world and the FRONT/RIGHT tables. partially_occluded is only driven with ymax = 0 '
              '(its documented limitation).')
SHARDS = {'quick': 4, 'thorough': 16}
BUDGET_S = {'quick': 300, 'thorough': 2400}
RULE = ('case = (state, view area, observation function[, seed]). non-trivial = the view sticks out of the grid on at least '
        'one side or the heading is not FORWARD; distinct by (function, area, deep state encoding).')
ASSUMPTIONS = ['reference geometry: view cell (i,j) of area [(y0,y1),(x0,x1)] shows agent + (-(y0+i))*front + (x0+j)*right']
EXHAUSTIVE_NOTE = 'all 48 poses of a 3x4 grid x all 81 areas within [-2,2]^2 containing the origin x 4 functions (+ from_visibility forms)'
REQUIRED = {'quick': {'worlds.with_empty_cells': 60, 'obs.checked': 15000, 'exhaustive.cases': 10000, 'cells.shown': 50000, 'cells.outside': 20000,
                      'heading.LEFT': 500, 'heading.RIGHT': 500, 'heading.BACKWARD': 500, 'shipped.obs': 1000,
                      'fn.fully_transparent': 1000, 'fn.partially_occluded': 500, 'fn.raytracing': 1000,
                      'fn.stochastic_raytracing': 1000, 'fn.parametrised_visibility': 500, 'history_states.compared': 300, 'views.excluding_agent': 100, 'views.custom_visibility': 100,
                      'views.large': 4}}


def check_observation(ctx, state, area, name, obs, payload_fn, label=''):
    """the soundness oracle"""
    ctx.hit('obs.checked')
    ctx.hit('fn.' + name.split(':')[-1].split('@')[0])
    if '@' in name:
        ctx.hit('fn.parametrised_visibility')
    ctx.hit('heading.' + state.agent.orientation.name)
    rows = obs.grid.objects
    H, W = area.ymax - area.ymin + 1, area.xmax - area.xmin + 1
    if len(rows) != H or any(len(r) != W for r in rows):
        ctx.violation('sound', 'view.shape', f'{label}{name} area {obsgen.area_json(area)}: view shape '
                      f'{(len(rows), len(rows[0]) if rows else 0)} != {(H, W)}', 'obs_case', payload_fn())
        return
    a = obs.agent
    if (a.position.y, a.position.x) != (-area.ymin, -area.xmin) or a.orientation is not Orientation.F:
        ctx.violation('sound', 'view.agent_pose', f'{label}{name} area {obsgen.area_json(area)}: agent reported at '
                      f'({a.position.y},{a.position.x},{a.orientation.name}), anchor is ({-area.ymin},{-area.xmin},FORWARD)',
                      'obs_case', payload_fn())
    if enc.eo(a.grid_object) != enc.eo(state.agent.grid_object):
        ctx.violation('sound', 'view.held_item', f'{label}{name}: held item reported {enc.eo(a.grid_object)} but is '
                      f'{enc.eo(state.agent.grid_object)}', 'obs_case', payload_fn())
    gh, gw = len(state.grid.objects), len(state.grid.objects[0])
    ay, ax, heading = state.agent.position.y, state.agent.position.x, state.agent.orientation
    shown = outside = 0
    for i in range(H):
        for j in range(W):
            wy, wx = refmodel.view_to_world(ay, ax, heading, area.ys, area.xs, i, j)
            cell = rows[i][j]
            hidden = type(cell) is Hidden
            if 0 <= wy < gh and 0 <= wx < gw:
                if hidden:
                    if name.endswith('fully_transparent'):
                        ctx.violation('sound', 'view.transparent_hides', f'{label}{name} area {obsgen.area_json(area)}: in-grid '
                                      f'view cell ({i},{j}) [world ({wy},{wx})] is Hidden', 'obs_case', payload_fn())
                    continue
                shown += 1
                if enc.eo(cell) != enc.eo(state.grid.objects[wy][wx]):
                    ctx.violation('sound', 'view.wrong_cell', f'{label}{name} area {obsgen.area_json(area)} agent ({ay},{ax},'
                                  f'{heading.name}): view cell ({i},{j}) shows {enc.eo(cell)} but world cell ({wy},{wx}) is '
                                  f'{enc.eo(state.grid.objects[wy][wx])}', 'obs_case', payload_fn())
            else:
                outside += 1
                if not hidden:
                    ctx.violation('sound', 'view.outside_not_hidden', f'{label}{name} area {obsgen.area_json(area)}: view cell '
                                  f'({i},{j}) lies outside the grid (world ({wy},{wx})) but shows {enc.eo(cell)}', 'obs_case',
                                  payload_fn())
    ctx.hit('cells.shown', shown)
    ctx.hit('cells.outside', outside)
    return outside


def observe(ctx, state, area, name, via_vis, seed, label=''):
    def payload():
        return {'state': enc.state_to_json(state), 'area': obsgen.area_json(area), 'fn': name, 'via_visibility': via_vis,
                'seed': seed}
    ok, fn = call_real(obsgen.build_obs, name, area, via_vis)
    if not ok:
        ctx.violation('sound', f'obs.build.{name}', f'building {name} raised {describe_exc(fn)}', 'obs_case', payload())
        return
    before = enc.es(state)
    ok, obs = call_real(fn, state, rng=np.random.default_rng(seed))
    ctx.ev()
    vis = getattr(fn, 'keywords', {}).get('visibility_function')
    if isinstance(vis, obsgen.ConeVisibility) and not vis.intact():
        ctx.violation('sound', 'from_visibility.modifies_visibility_mask',
                      f'{name} area {obsgen.area_json(area)}: from_visibility modified the mask array returned by the user-defined '
                      f'visibility function (the next observation through it is wrong)', 'obs_case', payload())
        return
    if not ok:
        ctx.violation('sound', f'obs.raises.{exc_site(obs)}', f'{label}{name} area {obsgen.area_json(area)} raised '
                      f'{describe_exc(obs)}', 'obs_case', payload())
        return
    if enc.es(state) != before:
        ctx.violation('sound', 'obs.mutates_state', f'{name} modified the state', 'obs_case', payload())
    outside = check_observation(ctx, state, area, ('vis:' if via_vis else '') + name, obs, payload, label)
    if outside or state.agent.orientation is not Orientation.F:
        ctx.nontrivial((name, via_vis, obsgen.area_json(area), enc.es(state)))


def exhaustive(ctx):
    grids = [obsgen.distinct_grid(3, 4), obsgen.distinct_grid(3, 4, opaque_every=3)]
    areas = obsgen.areas_within(-2, 2)
    idx = 0
    for gi, grid in enumerate(grids):
        for y in range(3):
            for x in range(4):
                for heading in gen.ORIENTATIONS:
                    for area in areas:
                        idx += 1
                        if not ctx.mine(idx):
                            continue
                        held = Key(Color.GREEN) if idx % 3 == 0 else NoneGridObject()
                        state = State(grid, Agent(Position(y, x), heading, held))
                        for name in obsgen.ALL:
                            if not obsgen.supported(name, area):
                                continue
                            ctx.hit('exhaustive.cases')
                            observe(ctx, state, area, name, via_vis=(idx % 5 == 0), seed=idx)
                        if idx % 1999 == 0:
                            ctx.sample('exhaustive', {'grid': gi, 'agent': [y, x, heading.name], 'area': obsgen.area_json(area)})


def random_cases(ctx, n):
    for k in range(n):
        if ctx.out_of_time(0.8):
            ctx.add('random_cases_skipped_for_time')
            break
        rng = gen.rng_for('C05rand', ctx.seed, ctx.shard, k)
        # a quarter of the worlds have cells holding no object at all (NoneGridObject, not Hidden): shown as what they are
        empty_cells = k % 4 == 3
        state, area, cat = obsgen.rand_case(rng, types=gen.GRID_TYPES + [NoneGridObject] if empty_cells else None)
        ctx.cat('pose.' + cat)
        if empty_cells:
            ctx.hit('worlds.with_empty_cells')
        for name in obsgen.ALL + obsgen.PARAMETRISED:
            if obsgen.supported(name, area):
                for rep in range(3 if name == 'stochastic_raytracing' else 1):
                    observe(ctx, state, area, name, via_vis=rng.random() < 0.3, seed=rng.randrange(2**32))
        if k == 0:
            ctx.sample('random', {'state': enc.render(state), 'area': obsgen.area_json(area)})


def history_cases(ctx, n):
    """states reached through the real dynamics (doors opened in place, boxes opened, keys moved): soundness, and the
    observation must equal the one of a freshly built equal state"""
    for k in range(n):
        rng = gen.rng_for('C05hist', ctx.seed, ctx.shard, k)
        state = obsgen.history_state(rng)
        area = gen.rand_area(rng, maxext=4, require_ymax0=rng.random() < 0.6)
        fresh = obsgen.rebuilt(state)
        for name in obsgen.DETERMINISTIC:
            if not obsgen.supported(name, area):
                continue
            observe(ctx, state, area, name, via_vis=False, seed=0)
            fn = obsgen.build_obs(name, area)
            ok1, o1 = call_real(fn, state, rng=None)
            ok2, o2 = call_real(fn, fresh, rng=None)
            ctx.hit('history_states.compared')
            if ok1 and ok2 and enc.es(o1) != enc.es(o2):
                ctx.violation('sound', 'view.differs_for_equal_states',
                              f'{name} area {obsgen.area_json(area)}: a state reached through the dynamics and a freshly built equal '
                              f'state are observed differently', 'obs_case',
                              {'state': enc.state_to_json(state), 'area': obsgen.area_json(area), 'fn': name, 'via_visibility': False, 'seed': 0,
                               'hist_key': [ctx.seed, ctx.shard, k]})


def unusual_views(ctx, n):
    """views that do not contain the agent's own cell (fully transparent only: the occluding functions need the agent
    inside the view), a user-defined visibility function that reuses its mask array, and very large views"""
    for k in range(n):
        rng = gen.rng_for('C05unusual', ctx.seed, ctx.shard, k)
        state, _, cat = obsgen.rand_case(rng, hmax=7, wmax=7)
        area = obsgen.rand_area_excluding_origin(rng)
        ctx.hit('views.excluding_agent')
        observe(ctx, state, area, 'fully_transparent', via_vis=(k % 2 == 0), seed=0)
        # one-cell windows (the cell in front, behind, to the side)
        dy, dx = rng.choice([(-1, 0), (1, 0), (0, -1), (0, 1), (-2, 1)])
        observe(ctx, state, Area((dy, dy), (dx, dx)), 'fully_transparent', via_vis=(k % 2 == 1), seed=0)
        # user-defined visibility function handing out the same mask array every time
        area2 = gen.rand_area(rng, maxext=3, require_ymax0=True)
        observe(ctx, state, area2, 'custom_cone', via_vis=False, seed=0)
        observe(ctx, obsgen.rotate_state_cw(state), area2, 'custom_cone', via_vis=False, seed=0)
        ctx.hit('views.custom_visibility')
    for i, (ys, xs) in enumerate(obsgen.LARGE_AREAS):
        if not ctx.mine(i):
            continue
        rng = gen.rng_for('C05large', ctx.seed, i)
        area = Area(ys, xs)
        for rep in range(2):
            state, _, cat = obsgen.rand_case(rng, hmax=9, wmax=9)
            for name in ('fully_transparent', 'raytracing', 'partially_occluded', 'stochastic_raytracing'):
                if obsgen.supported(name, area):
                    observe(ctx, state, area, name, via_vis=False, seed=rep)
            ctx.hit('views.large')


def shipped(ctx, seeds, steps):
    job = 0
    for name, path, data in compose.shipped_configs():
        for s in range(seeds):
            job += 1
            if not ctx.mine(job):
                continue
            env = compose.factory_env(data)
            env.set_seed(ctx.seed * 100 + s)
            spec = data['observation_function']
            area = obsgen.area_from_json(spec['area'])
            ok, state = call_real(env.functional_reset)
            if not ok:
                continue
            prng = gen.rng_for('C05ship', name, s)
            for t in range(steps):
                ok, obs = call_real(env.functional_observation, state)
                ctx.ev()
                if ok:
                    ctx.hit('shipped.obs')
                    st = state
                    check_observation(ctx, state, area, spec['name'], obs,
                                      lambda st=st: {'state': enc.state_to_json(st), 'area': spec['area'], 'fn': spec['name'],
                                                     'via_visibility': False, 'seed': 0}, label=f'{name} t={t}: ')
                ok, res = call_real(env.functional_step, state, workloads.policy_edge_seeking(prng, env, state))
                if not ok:
                    break
                state = res[0]
                if res[2]:
                    ok, state = call_real(env.functional_reset)
                    if not ok:
                        break
            ctx.addset('configs', name)


def run(ctx):
    from .. import custom_objects
    custom_objects.enable(cleats=True, curtain=True)  # user-defined object types join the generators' pool (flags, not types, must decide)
    with reach(ctx, [observation_fs.from_visibility, grid_mod.Grid.subgrid, grid_mod.Grid.__mul__]):
        exhaustive(ctx)
        random_cases(ctx, ctx.pick(500, 12000))
        history_cases(ctx, ctx.pick(150, 3000))
        unusual_views(ctx, ctx.pick(150, 2500))
        shipped(ctx, ctx.pick(1, 8), ctx.pick(60, 300))
        ctx.extra['exhaustive'] = True


def replay(ctx, kind, payload):
    from .. import custom_objects
    custom_objects.enable(cleats=True, curtain=True)
    state = enc.state_from_json(payload['state'])
    area = obsgen.area_from_json(payload['area'])
    if 'hist_key' in payload:  # state reached through the real dynamics: regenerate that history
        hstate = obsgen.history_state(gen.rng_for('C05hist', *payload['hist_key']))
        fn = obsgen.build_obs(payload['fn'], area)
        ok1, o1 = call_real(fn, hstate, rng=None)
        ok2, o2 = call_real(fn, obsgen.rebuilt(hstate), rng=None)
        ctx.ev()
        if ok1 and ok2 and enc.es(o1) != enc.es(o2):
            ctx.violation('sound', 'view.differs_for_equal_states', 'history state observed differently from its rebuilt copy', kind, payload)
        state = hstate
    observe(ctx, state, area, payload['fn'], payload.get('via_visibility', False), payload.get('seed', 0))
