"""Spaces and members for the representation properties (C15, C16)."""
from . import boot  # noqa: F401
import itertools

from gym_gridverse.agent import Agent
from gym_gridverse.geometry import Orientation, Position, Shape
from gym_gridverse.grid import Grid
from gym_gridverse.grid_object import (
    Beacon,
    Box,
    Color,
    Door,
    Exit,
    Floor,
    Hidden,
    Key,
    MovingObstacle,
    NoneGridObject,
    Telepod,
    Wall,
)
from gym_gridverse.observation import Observation
from gym_gridverse.spaces import ObservationSpace, StateSpace
from gym_gridverse.state import State

from . import compose, enc, gen

REPRESENTABLE = [Floor, Wall, Exit, Door, Key, MovingObstacle, Telepod, Beacon]
NAMES = ['default', 'no-overlap', 'compact']
NONNONE = [Color.RED, Color.GREEN, Color.BLUE, Color.YELLOW]


def all_type_subsets():
    out = []
    for r in range(1, len(REPRESENTABLE) + 1):
        out += [list(c) for c in itertools.combinations(REPRESENTABLE, r)]
    return out


def all_color_subsets():
    out = []
    for r in range(0, 5):
        out += [[Color.NONE] + list(c) for c in itertools.combinations(NONNONE, r)]
    return out


def shipped_type_sets():
    sets = []
    for name, path, data in compose.shipped_configs(include_examples=False):
        ts = [compose.object_type(n) for n in data['state_space']['objects']]
        cs = [Color[c] for c in data['state_space']['colors']]
        if (ts, cs) not in sets:
            sets.append((ts, cs))
    return sets


def space_cases(ctx, n_sample):
    """(types, colours, grid shape, view shape): quick = seeded sample always
    including singletons, the full set and each shipped set; thorough = all 255 subsets"""
    rng = ctx.rng
    subsets = all_type_subsets()
    colsets = all_color_subsets()
    cases = []
    if ctx.thorough:
        for ts in subsets:
            for cs in rng.sample(colsets, 6) + [colsets[0], colsets[-1]]:
                cases.append((ts, cs))
    else:
        must = [s for s in subsets if len(s) == 1] + [list(REPRESENTABLE)]
        for ts in must:
            cases.append((ts, rng.choice(colsets)))
        cases.append((list(REPRESENTABLE), colsets[-1]))
        cases.append(([Floor], colsets[0]))
        for ts, cs in shipped_type_sets():
            cases.append((ts, cs))
        while len(cases) < n_sample:
            cases.append((rng.choice(subsets), rng.choice(colsets)))
    # the smallest spaces: nothing declared at all (observations of Hidden cells only), only the implicit types declared
    cases[3:3] = [([], rng.choice(colsets)), ([NoneGridObject], rng.choice(colsets)), ([Hidden], colsets[0]),
                  ([NoneGridObject, Hidden], rng.choice(colsets))]
    out = []
    for i, (ts, cs) in enumerate(cases):
        h, w = rng.randint(2, 6), rng.randint(2, 6)
        vh, vw = rng.randint(1, 6), rng.choice([1, 3, 5, 7])
        if i % 5 == 0:
            h, w = 2, 2
        if i % 9 == 4:  # degenerate worlds: a single row, a single column, a single cell
            h, w = [(1, rng.randint(2, 6)), (rng.randint(2, 6), 1), (1, 1)][(i // 9) % 3]
        ts, cs = list(ts), list(cs)
        # declared lists as users write them: a type named twice, the implicit types (NoneGridObject, Hidden) named
        # explicitly, a colour named twice
        if i % 7 == 3 and ts:
            ts = ts + [rng.choice(ts)]
        if i % 7 == 5:
            ts = ts + [NoneGridObject]
        if i % 11 == 7:
            ts = ts + [Hidden]
        if i % 13 == 6:
            cs = cs + [rng.choice(cs)]
        if i % 2:  # declared in arbitrary order (NONE not first, types not in registry order)
            rng.shuffle(ts)
            rng.shuffle(cs)
        out.append((ts, cs, (h, w), (vh, vw)))
    return out


def member_objects(types, colors, extra=()):
    """every (type, status, colour) object of a space"""
    out = []
    for t in list(types) + list(extra):
        if t.__name__ == 'Gate':
            out += [t(s, c) for s in Door.Status for c in colors]
        elif t.__name__ == 'Countdown':
            out += [t(k) for k in (0, 1, 2, 127, 128, 255, 256, 257, 299)]
        elif t is Door:
            out += [Door(s, c) for s in Door.Status for c in colors]
        elif t in (Key, Telepod, Beacon, Exit):
            out += [t(c) for c in colors]
        elif t is Box:
            out.append(Box(Floor()))
        else:
            out.append(t())
    return out


def dedup(objs):
    """one object per deep encoding (declared lists may name a type twice)"""
    seen, out = set(), []
    for o in objs:
        e = enc.eo(o)
        if e not in seen:
            seen.add(e)
            out.append(o)
    return out


def fill_grid(rng, h, w, objs, floor=None):
    base = floor if floor is not None else objs[0]
    return [[enc.obj_from_json(enc.obj_to_json(rng.choice(objs) if rng.random() < 0.5 else base)) for _ in range(w)]
            for _ in range(h)]


def cell_classes(h, w):
    cells = {(0, 0), (0, w - 1), (h - 1, 0), (h - 1, w - 1), (0, w // 2), (h // 2, 0), (h // 2, w // 2)}
    return sorted(cells)


def make_state(rows, y, x, o, held):
    return State(Grid(rows), Agent(Position(y, x), o, held))


def make_observation(rows, view, held):
    vh, vw = view
    return Observation(Grid(rows), Agent(Position(vh - 1, vw // 2), Orientation.F, held))


def copy_obj(o):
    return enc.obj_from_json(enc.obj_to_json(o))
