"""Breadth-first search over the *real* GridWorld.functional_step, keyed by the
canonical deep encoding.  For stochastic dynamics the successor set of
(state, action) is the set of all resolutions of the random choices
(possibilistic search through ScriptedRng)."""
from . import boot  # noqa: F401
from collections import deque

from . import enc
from .monitor import env_rng_slots
from .scripted_rng import ScriptedRng, enumerate_outcomes


def successors(env, state, action, stochastic, outcome_limit=64):
    """[(next_state, reward, done)] for every random outcome (one if deterministic).
    Exceptions from the real step propagate to the caller."""
    if not stochastic:
        return [env.functional_step(state, action)], True
    slots = env_rng_slots(env)
    if not slots:
        env.set_seed(0)  # an environment that was never seeded holds no generator yet: give it one (it is replaced below anyway)
        slots = env_rng_slots(env)
    if not slots:
        raise RuntimeError('the environment keeps no generator attribute the harness can script')
    saved = {k: getattr(env, k) for k in slots}
    results = []
    unscripted = [False]

    def run(rng):
        for k in slots:
            setattr(env, k, rng)
        out = env.functional_step(state, action)
        unscripted[0] |= bool(getattr(rng, 'unscripted', None))
        return out

    try:
        gen = enumerate_outcomes(run, outcome_limit)
        complete = True
        while True:
            try:
                rng, res = next(gen)
            except StopIteration as stop:
                complete = bool(stop.value)
                break
            if isinstance(res, Exception):
                raise res
            results.append(res)
            if unscripted[0]:
                break
        if unscripted[0]:
            # the step draws in a way that cannot be enumerated (a continuous draw, say): sample real generators instead;
            # the successor set is then a subset of the possible ones (never claimed complete)
            import numpy as _np
            complete = False
            for seed in range(outcome_limit):
                g = _np.random.default_rng(seed)
                for k in slots:
                    setattr(env, k, g)
                results.append(env.functional_step(state, action))
    finally:
        for k, v in saved.items():
            setattr(env, k, v)
    # distinct successors only
    seen, out = set(), []
    for ns, r, d in results:
        k = enc.es(ns)
        if k not in seen:
            seen.add(k)
            out.append((ns, r, d))
    return out, complete


def bfs(env, start, is_goal, max_nodes=20000, stochastic=False, actions=None, prune=None, on_state=None,
        on_transition=None, priority=None, outcome_limit=64, on_error=None):
    """Search the graph of non-terminal states reachable from `start`.

    is_goal(state, action, next_state, reward, done) decides the goal on a transition.
    Returns (status, path, stats): status 'found' (path = list of actions; for
    stochastic dynamics a possible history), 'exhausted' (proof that no goal
    transition is reachable without passing through a terminating state) or
    'budget' (inconclusive).  `on_state(state)` is called once per distinct
    reachable non-terminal state (safety invariants)."""
    actions = list(actions or env.action_space.actions)
    k0 = enc.es(start)
    parent = {k0: None}
    import heapq
    counter = 0
    if priority is None:
        frontier = deque([(start, k0)])
    else:  # best-first (still exhaustive when it runs to completion)
        frontier = [(priority(start), counter, start, k0)]
    nodes = 0
    transitions = 0
    truncated_outcomes = False
    if on_state:
        on_state(start)
    while frontier:
        if priority is None:
            state, k = frontier.popleft()
        else:
            _, _, state, k = heapq.heappop(frontier)
        nodes += 1
        if nodes > max_nodes:
            return 'budget', None, {'nodes': nodes, 'transitions': transitions}
        for a in actions:
            try:
                succ, complete = successors(env, state, a, stochastic, outcome_limit)
            except Exception as e:
                from .monitor import raised_by_harness
                if on_error is None or raised_by_harness(e):
                    raise
                on_error(state, a, e)  # the real step raised: that transition is unexplored (caller decides what it means)
                truncated_outcomes = True
                continue
            truncated_outcomes |= not complete
            for ns, r, d in succ:
                transitions += 1
                if on_transition is not None:
                    on_transition(state, a, ns, r, d)
                if is_goal(state, a, ns, r, d):
                    path = [a]
                    while parent[k] is not None:
                        k, act = parent[k]
                        path.append(act)
                    return 'found', path[::-1], {'nodes': nodes, 'transitions': transitions}
                if d:
                    continue  # terminating state: never expanded
                if prune is not None and prune(state, a, ns):
                    continue
                kn = enc.es(ns)
                if kn not in parent:
                    parent[kn] = (k, a)
                    if priority is None:
                        frontier.append((ns, kn))
                    else:
                        counter += 1
                        heapq.heappush(frontier, (priority(ns), counter, ns, kn))
                    if on_state:
                        on_state(ns)
    status = 'budget' if truncated_outcomes else 'exhausted'
    return status, None, {'nodes': nodes, 'transitions': transitions, 'states': len(parent)}
