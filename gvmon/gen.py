"""Seeded generators of grid objects, grids, states, view areas.

All generators take a ``random.Random``; positions are biased towards edges and
corners facing outward (the cases the shipped, wall-bounded layouts never
produce).
"""
from . import boot  # noqa: F401
import random

from gym_gridverse.action import Action
from gym_gridverse.agent import Agent
from gym_gridverse.geometry import Area, Orientation, Position
from gym_gridverse.grid import Grid
from gym_gridverse.grid_object import (
    Beacon,
    Box,
    Color,
    Door,
    Exit,
    Floor,
    Key,
    MovingObstacle,
    NoneGridObject,
    Telepod,
    Wall,
)
from gym_gridverse.state import State

GRID_TYPES = [Floor, Wall, Exit, Door, Key, MovingObstacle, Box, Telepod, Beacon]
COLORS = list(Color)
ORIENTATIONS = [Orientation.F, Orientation.R, Orientation.B, Orientation.L]
ACTIONS = list(Action)
HOLDABLE_TYPES = [Key]

# unit vectors written independently of geometry.py: heading -> (dy, dx) of "front"
FRONT = {
    Orientation.F: (-1, 0),
    Orientation.R: (0, 1),
    Orientation.B: (1, 0),
    Orientation.L: (0, -1),
}
# heading -> (dy, dx) of the agent's right-hand side
RIGHT = {
    Orientation.F: (0, 1),
    Orientation.R: (1, 0),
    Orientation.B: (0, -1),
    Orientation.L: (-1, 0),
}


def rng_for(*keys) -> random.Random:
    return random.Random(repr(keys))


def make_obj(rng, typ, colors, types=None, depth=0):
    colors = list(colors) or [Color.NONE]
    if typ is Door:
        return Door(rng.choice(list(Door.Status)), rng.choice(colors))
    if typ in (Key, Telepod, Beacon):
        return typ(rng.choice(colors))
    if typ is Exit:
        return Exit(rng.choice(colors))
    if typ.__name__ == 'Curtain':
        return typ(rng.random() < 0.5)
    if typ.__name__ == 'Countdown':
        return typ(rng.choice([0, 1, 2, 255, 256, 257, 299]))
    if typ.__name__ == 'Gate':
        return typ(rng.choice(list(Door.Status)), rng.choice(colors))
    if typ.__name__ == 'GoalExit':
        return typ(rng.choice(colors))
    if typ is Box:
        inner = [t for t in (types or GRID_TYPES) if (t is not Box or depth < 2) and t.__name__ not in ('NoneGridObject', 'Hidden')]
        if not inner:
            inner = [Box]
        t = rng.choice(inner)
        if t is Box and depth >= 2:
            t = Floor
        return Box(make_obj(rng, t, colors, types, depth + 1))
    return typ()


def rand_obj(rng, types=None, colors=None, depth=0):
    types = list(types or GRID_TYPES)
    colors = list(colors or COLORS)
    return make_obj(rng, rng.choice(types), colors, types, depth)


def all_objects(types=None, colors=None, box_contents=True):
    """every (type, status, colour) object of a space; boxes with each
    non-box object as content"""
    types = list(types or GRID_TYPES)
    colors = list(colors or COLORS)
    out = []
    for t in types:
        if t is Door:
            out += [Door(s, c) for s in Door.Status for c in colors]
        elif t in (Key, Telepod, Beacon, Exit):
            out += [t(c) for c in colors]
        elif t is Box:
            continue
        else:
            out.append(t())
    if Box in types and box_contents:
        base = list(out) or [Floor()]
        out += [Box(o) for o in base]
        out.append(Box(Box(base[0])))
    return out


def rand_held(rng, types, colors, p_none=0.4):
    """any held item of a declared type (the state space allows any declared
    type in the agent's hand), or nothing"""
    if rng.random() < p_none:
        return NoneGridObject()
    types = list(types)
    # bias towards holdable objects, but any declared type conforms
    hold = [t for t in types if t in HOLDABLE_TYPES]
    if hold and rng.random() < 0.7:
        return make_obj(rng, rng.choice(hold), colors, types)
    return make_obj(rng, rng.choice(types), colors, types)


def rand_shape(rng, hmax=7, wmax=7, hmin=1, wmin=1):
    return rng.randint(hmin, hmax), rng.randint(wmin, wmax)


def rand_grid(rng, shape, types, colors, p_floor=0.45):
    h, w = shape
    types = list(types)
    rows = []
    # a third of the grids reuse one instance for all their floors and one for all their walls (what `[Wall()] * n` or a
    # constant factory produce): objects without mutable status may be shared between cells
    pool = {} if rng.random() < 0.33 else None
    for _ in range(h):
        row = []
        for _ in range(w):
            if Floor in types and rng.random() < p_floor:
                o = Floor()
            else:
                o = rand_obj(rng, types, colors)
            if pool is not None and type(o) in (Floor, Wall):
                o = pool.setdefault(type(o), o)
            row.append(o)
        rows.append(row)
    return Grid(rows)


POSE_CATEGORIES = [
    'top_out',
    'bottom_out',
    'left_out',
    'right_out',
    'corner_out',
    'edge_in',
    'interior',
    'any',
]


def rand_pose(rng, shape, category=None):
    """(y, x, orientation) with forced edge/corner categories"""
    h, w = shape
    cat = category or rng.choice(POSE_CATEGORIES)
    if cat == 'top_out':
        return 0, rng.randrange(w), Orientation.F, cat
    if cat == 'bottom_out':
        return h - 1, rng.randrange(w), Orientation.B, cat
    if cat == 'left_out':
        return rng.randrange(h), 0, Orientation.L, cat
    if cat == 'right_out':
        return rng.randrange(h), w - 1, Orientation.R, cat
    if cat == 'corner_out':
        y = rng.choice([0, h - 1])
        x = rng.choice([0, w - 1])
        o = rng.choice(
            [Orientation.F if y == 0 else Orientation.B, Orientation.L if x == 0 else Orientation.R]
        )
        return y, x, o, cat
    if cat == 'edge_in':
        y = rng.choice([0, h - 1])
        x = rng.randrange(w)
        return y, x, rng.choice(ORIENTATIONS), cat
    if cat == 'interior' and h > 2 and w > 2:
        return rng.randrange(1, h - 1), rng.randrange(1, w - 1), rng.choice(ORIENTATIONS), cat
    return rng.randrange(h), rng.randrange(w), rng.choice(ORIENTATIONS), 'any'


def rand_state(rng, types, colors, shape=None, category=None, hmax=7, wmax=7,
               agent_on_free=False, p_floor=0.45):
    """a member of the state space (shape, types, colours): any declared mix of
    objects, agent anywhere in the grid, any held item of a declared type"""
    shape = shape or rand_shape(rng, hmax, wmax)
    grid = rand_grid(rng, shape, types, colors, p_floor=p_floor)
    y, x, o, cat = rand_pose(rng, shape, category)
    if agent_on_free and grid[y, x].blocks_movement:
        grid[y, x] = Floor() if Floor in types else grid[y, x]
    held = rand_held(rng, types, colors)
    if rng.random() < 0.25:
        # numpy-integer coordinates, as the library's own reset functions produce them (rng.integers)
        import numpy as np
        y, x = np.int64(y), np.int64(x)
    agent = Agent(Position(y, x), o, held)
    agent.grid_object = held  # as pickndrop puts it there (by assignment): the state holds it whatever the constructor does
    return State(grid, agent), cat


def front_of(state):
    dy, dx = FRONT[state.agent.orientation]
    return state.agent.position.y + dy, state.agent.position.x + dx


def in_grid(state_or_grid, y, x):
    g = getattr(state_or_grid, 'grid', state_or_grid)
    return 0 <= y < len(g.objects) and 0 <= x < len(g.objects[0])


def rand_area(rng, maxext=4, require_ymax0=False):
    """a view area containing the origin (0, 0)"""
    ymin = -rng.randint(0, maxext)
    ymax = 0 if require_ymax0 else rng.randint(0, maxext)
    xmin = -rng.randint(0, maxext)
    xmax = rng.randint(0, maxext)
    return Area((ymin, ymax), (xmin, xmax))


def obs_space_area(rng, hmax=5, kmax=3):
    """a view area of the only form ObservationSpace supports:
    [(-(H-1), 0), (-k, k)]"""
    H = rng.randint(1, hmax)
    k = rng.randint(0, kmax)
    return Area((-(H - 1), 0), (-k, k))


def subsets_sample(rng, items, must_include=(), p=0.5):
    out = [i for i in items if i in must_include or rng.random() < p]
    return out or list(must_include) or [items[0]]
