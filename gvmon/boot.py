"""Path set-up and repository import for the harness.

Everything in gvmon imports the *real* repository from GV_REPO (default /repo);
nothing here models it.  Import this module first.
"""
import os
import sys
import warnings

VERIF = os.path.dirname(os.path.dirname(os.path.abspath(__file__)))
REPO = os.environ.get('GV_REPO', '/repo')

sys.dont_write_bytecode = True
for p in (os.path.join(REPO, 'examples'), REPO, os.path.join(VERIF, 'vendor')):
    if p not in sys.path:
        sys.path.insert(0, p)

warnings.filterwarnings('ignore')
os.environ.setdefault('GYM_GRIDVERSE_VERIF', '1')

# gym prints a notice on stderr at import; keep the check output readable
_stderr = sys.stderr
try:
    sys.stderr = open(os.devnull, 'w')
    import gym_gridverse  # noqa: F401,E402  (must precede sub-module imports)
finally:
    sys.stderr.close()
    sys.stderr = _stderr

assert os.path.realpath(gym_gridverse.__file__).startswith(
    os.path.realpath(REPO) + os.sep
), (gym_gridverse.__file__, REPO)


def tier() -> str:
    return os.environ.get('VERIF_TIER', 'quick')


def seed() -> int:
    try:
        return int(os.environ.get('VERIF_SEED', '0'))
    except ValueError:
        return 0


def in_repo(filename: str) -> bool:
    return os.path.realpath(filename).startswith(os.path.realpath(REPO) + os.sep)


def in_harness(filename: str) -> bool:
    return os.path.realpath(filename).startswith(
        os.path.join(os.path.realpath(VERIF), 'gvmon') + os.sep
    )
