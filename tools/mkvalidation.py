#!/usr/bin/env python3
"""Rewrites the generated validation tables of DESIGN.md (between the
VALIDATION-BEGIN/END markers) from mutants/results.json and seeded/*/meta.json."""
import glob
import json
import os

HERE = os.path.dirname(os.path.dirname(os.path.abspath(__file__)))
lines = []
mut = {m['id']: m for m in json.load(open(os.path.join(HERE, 'mutants', 'mutants.json')))}
res = json.load(open(os.path.join(HERE, 'mutants', 'results.json')))
lines.append('### 5.1 Own textual mutants (tools/mutants.py, quick tier, VERIF_SEED=0)\n')
lines.append('`suite` = the repository\'s own 1017 tests still pass with the mutant (mutants the suite already kills are kept as sanity '
             'checks of the monitors, but only the others count as "tests cannot see it").\n')
lines.append('| mutant | what it breaks | suite | caught by (exit 1) | not caught by |')
lines.append('|---|---|---|---|---|')
for mid in sorted(mut):
    if mid not in res:
        continue
    r = res[mid]
    caught = [p for p, v in r['checks'].items() if v['exit'] == 1]
    missed = [p for p, v in r['checks'].items() if v['exit'] != 1]
    lines.append(f"| {mid} | {mut[mid]['why']} | {'passes' if r['suite_passes'] else 'fails'} | {', '.join(caught) or '-'} | {', '.join(missed) or '-'} |")
lines.append('')
lines.append('### 5.2 Seeded changes written by independent sub-agents (seeded/<id>/, tools/seeded.py)\n')
lines.append('Each sub-agent saw only the text of one property and a scratch worktree. `confirmed` = patch applies, repository suite still '
             'passes, the agent\'s demonstration fails with the change and passes without (re-run by tools/seeded.py on a fresh worktree).\n')
lines.append('| seeded change | property | confirmed | own check (quick) | all checks that fire |')
lines.append('|---|---|---|---|---|')
for mp in sorted(glob.glob(os.path.join(HERE, 'seeded', '*', 'meta.json'))):
    m = json.load(open(mp))
    own = m.get('checks', {}).get(f"{m['property']}.quick", {}).get('exit')
    own_t = m.get('checks', {}).get(f"{m['property']}.thorough", {}).get('exit')
    owns = {1: 'fires', 0: 'silent', 2: 'inconclusive', None: 'not run'}[own]
    if own_t is not None:
        owns += f" (thorough: {{1: 'fires', 0: 'silent', 2: 'inconclusive'}}[own_t])".replace("{1: 'fires', 0: 'silent', 2: 'inconclusive'}[own_t]", {1: 'fires', 0: 'silent', 2: 'inconclusive'}[own_t])
    lines.append(f"| {m['id']} | {m['property']} | {'yes' if m.get('confirmed') else ('was (' + m['superseded'] + ')' if m.get('superseded') else 'NO')} | {owns} | {', '.join(m.get('caught_by', [])) or '-'} |")
lines.append('')
lines.append('### 5.3 Behaviour-preserving changes (benign/<id>/, tools/benign.py): no check may fire\n')
lines.append('Changes that keep every property true (own ones, and ones written by independent sub-agents together with a program that '
             'checks the property itself and passes with and without the change).  `silent` = exit 0, neither a violation nor an '
             'inconclusive run; anything else is a false alarm of the machinery and is listed.\n')
lines.append('| change | written for | suite | demo passes with / without | checks silent | alarms |')
lines.append('|---|---|---|---|---|---|')
for mp in sorted(glob.glob(os.path.join(HERE, 'benign', '*', 'meta.json'))):
    m = json.load(open(mp))
    ch = m.get('checks', {})
    noisy = sorted(k for k, v in ch.items() if v['exit'] != 0)
    ran = m.get('ran', {})
    demo = f"{ran['demo_with_change']['exit'] == 0} / {ran['demo_unchanged']['exit'] == 0}" if ran else 'n/a (own)'
    lines.append(f"| {m['id']} | {m.get('property', '-')} | {'passes' if m.get('suite_passes_with_change') else 'fails'} | {demo} | "
                 f"{len(ch) - len(noisy)}/{len(ch)} | {', '.join(noisy) or '-'} |")
block = '\n'.join(lines)
p = os.path.join(HERE, 'DESIGN.md')
s = open(p).read()
b, e = '<!-- VALIDATION-BEGIN -->', '<!-- VALIDATION-END -->'
if b in s:
    s = s[:s.index(b) + len(b)] + '\n' + block + '\n' + s[s.index(e):]
    open(p, 'w').write(s)
    print('DESIGN.md validation tables updated:', len(lines), 'lines')
else:
    print(block)
