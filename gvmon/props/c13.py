"""C13 — reset functions always produce well-formed initial states.
See DESIGN.md §2 C13."""
from .. import boot  # noqa: F401
import itertools

import numpy as np

from gym_gridverse.envs import reset_functions as reset_fs
from gym_gridverse import design as design_mod
from gym_gridverse.geometry import Shape
from gym_gridverse.grid_object import (
    Beacon,
    Color,
    Door,
    Exit,
    Floor,
    Key,
    MovingObstacle,
    NoneGridObject,
    Telepod,
    Wall,
)

from .. import enc, gen
from ..custom_objects import Curtain
from ..monitor import call_real, describe_exc, raised_by_harness, reach
from ..scripted_rng import enumerate_outcomes

ID = 'C13'
LEVEL = 'exploration'
DEBUG_TOGGLE = True  # runner flips the library debug flag every 97 monitored executions
TECHNIQUE = 'runtime monitoring: post-condition predicate per reset function (written from the statement) on every state returned by the real factory-built reset functions over a parameter grid x seeds; outcome injection (scripted generator) enumerating all random outcomes for the smallest accepted shapes; exception-class monitor for parameters that cannot be honoured'
LEVEL_TEXT = ('Every call of every built-in reset function (through the real factory) over a grid of shapes 1x1..9x9 (thorough '
              '14x14, square and not), flags, counts (-1, 0, 1, .., saturation, saturation+1), layouts (1..4)^2 and colour sets '
              'must either raise ValueError or return a state satisfying the per-function predicate: requested shape, unbroken '
              'wall boundary, agent inside, empty-handed, on a non-blocking cell that is not an exit/obstacle/telepod, and the '
              'advertised inventory. For the smallest accepted shapes of each function all random outcomes are enumerated with '
              'the scripted generator (exhaustive per shape).'
              ' Also: layouts with zero or negative room counts, long layouts (up to 71 cells x 15 rooms), the grid run twice in shuffled orders.')
LEVEL_NOTE = ('Trusted: the predicates in this module. Layout entries < 1, non-integer parameters and river object types that need constructor arguments or are part of the advertised inventory (Exit, Telepod ...) '
              'are outside the documented domain and not generated (rivers of Wall, MovingObstacle and a user-defined type are); crossing truncating num_rivers is accepted.')
SHARDS = {'quick': 4, 'thorough': 16}
BUDGET_S = {'quick': 300, 'thorough': 2400}
RULE = ('case = (reset function, parameters, seed or random-choice script). non-trivial = accepted parameters with at least one '
        'random draw, or rejected parameters; distinct by (function, parameters, resulting deep state encoding or exception).')
ASSUMPTIONS = ['accepted => well-formed, otherwise ValueError; any other exception or a malformed state is a violation']
EXHAUSTIVE_NOTE = 'all random outcomes (scripted generator) for the smallest accepted shapes of each reset function'
REQUIRED = {'quick': {f'accepted.{n}': 40 for n in ['empty', 'rooms', 'dynamic_obstacles', 'keydoor', 'crossing', 'teleport',
                                                     'memory', 'memory_rooms']}}
REQUIRED['quick'].update({f'rejected.{n}': 10 for n in ['empty', 'rooms', 'dynamic_obstacles', 'keydoor', 'crossing', 'teleport',
                                                        'memory', 'memory_rooms']})
REQUIRED['quick'].update({'outcomes.enumerated': 2000, 'outcomes.exhaustive_cases': 8, 'long_layouts': 1000})


def cells(state):
    for y, row in enumerate(state.grid.objects):
        for x, o in enumerate(row):
            yield y, x, o


def common(state, shape):
    """requested shape, wall boundary, agent well placed and empty-handed"""
    why = []
    rows = state.grid.objects
    h, w = shape
    if len(rows) != h or any(len(r) != w for r in rows):
        return [f'shape {(len(rows), len(rows[0]) if rows else 0)} != requested {shape}']
    if (state.grid.shape.height, state.grid.shape.width) != (h, w):
        why.append('grid.shape attribute disagrees with the objects')
    for y, x, o in cells(state):
        if (y in (0, h - 1) or x in (0, w - 1)) and type(o) is not Wall:
            why.append(f'border cell ({y},{x}) is {enc.eo(o)}')
            break
    p = state.agent.position
    if not (0 <= p.y < h and 0 <= p.x < w):
        why.append(f'agent outside the grid at ({p.y},{p.x})')
        return why
    under = rows[p.y][p.x]
    if under.blocks_movement:
        why.append(f'agent on a blocking cell {enc.eo(under)}')
    if isinstance(under, (Exit, MovingObstacle, Telepod)):
        why.append(f'agent starts on {enc.eo(under)}')
    if type(state.agent.grid_object) is not NoneGridObject:
        why.append(f'agent holds {enc.eo(state.agent.grid_object)}')
    from gym_gridverse.geometry import Orientation
    if not isinstance(state.agent.orientation, Orientation):
        why.append('heading is not an Orientation')
    return why


def count(state, T):
    return sum(1 for _, _, o in cells(state) if isinstance(o, T))


def only_types(state, allowed):
    bad = sorted({type(o).__name__ for _, _, o in cells(state) if type(o) not in allowed})
    return [f'unexpected object types {bad}'] if bad else []


def pred_empty(state, p):
    why = common(state, p['shape']) + only_types(state, {Wall, Floor, Exit})
    if count(state, Exit) != 1:
        why.append(f'{count(state, Exit)} exits')
    return why


def pred_rooms(state, p):
    why = common(state, p['shape']) + only_types(state, {Wall, Floor, Exit})
    if count(state, Exit) != 1:
        why.append(f'{count(state, Exit)} exits')
    return why


def pred_dynamic_obstacles(state, p):
    why = common(state, p['shape']) + only_types(state, {Wall, Floor, Exit, MovingObstacle})
    if count(state, Exit) != 1:
        why.append(f'{count(state, Exit)} exits')
    if count(state, MovingObstacle) != p['num_obstacles']:
        why.append(f'{count(state, MovingObstacle)} obstacles, requested {p["num_obstacles"]}')
    return why


def pred_keydoor(state, p):
    why = common(state, p['shape']) + only_types(state, {Wall, Floor, Exit, Door, Key})
    h, w = p['shape']
    doors = [(y, x, o) for y, x, o in cells(state) if isinstance(o, Door)]
    keys = [(y, x, o) for y, x, o in cells(state) if isinstance(o, Key)]
    exits = [(y, x) for y, x, o in cells(state) if isinstance(o, Exit)]
    if len(doors) != 1 or len(keys) != 1 or len(exits) != 1:
        return why + [f'{len(doors)} doors, {len(keys)} keys, {len(exits)} exits']
    dy, dx, door = doors[0]
    ky, kx, key = keys[0]
    if door.state is not Door.Status.LOCKED:
        why.append(f'door is {door.state.name}')
    if key.color is not door.color:
        why.append(f'key {key.color.name} does not match door {door.color.name}')
    column = [state.grid.objects[y][dx] for y in range(h)]
    if not all(type(o) is Wall or o is door for o in column):
        why.append(f'door at ({dy},{dx}) is not in a dividing wall column')
    if not (0 < dx < w - 1 and 0 < dy < h - 1):
        why.append('door in the outer boundary')
    if not kx < dx:
        why.append(f'key at x={kx} not on the near side of the wall x={dx}')
    if not state.agent.position.x < dx:
        why.append(f'agent at x={state.agent.position.x} not on the key side of the wall x={dx}')
    if not exits[0][1] > dx:
        why.append(f'exit at x={exits[0][1]} not beyond the wall x={dx}')
    return why


RIVERS = {'Wall': Wall, 'MovingObstacle': MovingObstacle, 'Curtain': Curtain}


def pred_crossing(state, p):
    # rivers of another type than Wall (the library's own tests and C14 use MovingObstacle) leave everything else as stated:
    # shape, unbroken *wall* boundary, agent placement, one exit
    why = common(state, p['shape']) + only_types(state, {Wall, Floor, Exit, RIVERS[p.get('river', 'Wall')]})
    if count(state, Exit) != 1:
        why.append(f'{count(state, Exit)} exits')
    return why


def pred_teleport(state, p):
    why = common(state, p['shape']) + only_types(state, {Wall, Floor, Exit, Telepod})
    if count(state, Exit) != 1:
        why.append(f'{count(state, Exit)} exits')
    pods = [o for _, _, o in cells(state) if isinstance(o, Telepod)]
    if len(pods) != 2 or len({t.color for t in pods}) != 1:
        why.append(f'telepods {[enc.eo(t) for t in pods]}: expected two of one colour')
    return why


def _memory_inventory(state, n_exits=None, n_beacons=None):
    why = []
    exits = [o for _, _, o in cells(state) if isinstance(o, Exit)]
    beacons = [o for _, _, o in cells(state) if isinstance(o, Beacon)]
    if n_exits is not None and len(exits) != n_exits:
        why.append(f'{len(exits)} exits, requested {n_exits}')
    if n_beacons is not None and len(beacons) != n_beacons:
        why.append(f'{len(beacons)} beacons, requested {n_beacons}')
    if len({e.color for e in exits}) != len(exits):
        why.append(f'exit colours not distinct: {[e.color.name for e in exits]}')
    if not beacons:
        why.append('no beacon')
    elif len({b.color for b in beacons}) != 1:
        why.append('beacons of different colours')
    elif sum(1 for e in exits if e.color is beacons[0].color) != 1:
        why.append(f'beacon colour {beacons[0].color.name} matches {sum(1 for e in exits if e.color is beacons[0].color)} exits')
    return why


def pred_memory(state, p):
    why = common(state, p['shape']) + only_types(state, {Wall, Floor, Exit, Beacon})
    why += _memory_inventory(state, 2, None)
    cols = set(p['colors'])
    used = {o.color for _, _, o in cells(state) if isinstance(o, (Exit, Beacon))}
    if not used <= cols:
        why.append(f'colours {sorted(c.name for c in used - cols)} were not requested')
    return why


def pred_memory_rooms(state, p):
    why = common(state, p['shape']) + only_types(state, {Wall, Floor, Exit, Beacon})
    why += _memory_inventory(state, p['num_exits'], p['num_beacons'])
    cols = set(p['colors'])
    used = {o.color for _, _, o in cells(state) if isinstance(o, (Exit, Beacon))}
    if not used <= cols:
        why.append(f'colours {sorted(c.name for c in used - cols)} were not requested')
    return why


PRED = {'empty': pred_empty, 'rooms': pred_rooms, 'dynamic_obstacles': pred_dynamic_obstacles, 'keydoor': pred_keydoor,
        'crossing': pred_crossing, 'teleport': pred_teleport, 'memory': pred_memory, 'memory_rooms': pred_memory_rooms}


def to_kwargs(name, p):
    k = dict(p)
    k['shape'] = Shape(*p['shape'])
    if 'layout' in k:
        k['layout'] = tuple(k['layout'])
    if 'colors' in k:
        k['colors'] = set(k['colors'])
    if name == 'crossing':
        k['object_type'] = RIVERS[k.pop('river', 'Wall')]
    return k


def jsonable(p):
    out = dict(p)
    if 'colors' in out:
        out['colors'] = sorted(c.name for c in out['colors'])
    return out


def judge(ctx, name, p, result, how):
    """accepted => predicate; otherwise ValueError"""
    payload = {'fn': name, 'params': jsonable(p), **how}
    if isinstance(result, Exception):
        if isinstance(result, ValueError):
            ctx.hit('rejected.' + name)
            ctx.nontrivial((name, enc.jdump(jsonable(p)), 'ValueError'))
            return 'rejected'
        ctx.violation('reset', f'{name}.wrong_exception',
                      f'{name}({jsonable(p)}) failed with {describe_exc(result)} instead of ValueError', 'reset_case', payload)
        return 'bad'
    ctx.hit('accepted.' + name)
    why = PRED[name](result, p)
    if why:
        ctx.violation('reset', f'{name}.malformed', f'{name}({jsonable(p)}) [{how}] returned a malformed state: {why[:3]}',
                      'reset_case', dict(payload, state=enc.render(result)))
        return 'bad'
    return 'ok'


def run_seeded(ctx, name, p, seed):
    fn = reset_fs.factory(name, **to_kwargs(name, p))
    rng = np.random.default_rng(seed)
    before = repr(rng.bit_generator.state)
    ok, res = call_real(fn, rng=rng)
    ctx.ev()
    verdict = judge(ctx, name, p, res, {'seed': seed})
    if verdict == 'ok' and repr(rng.bit_generator.state) != before:
        ctx.nontrivial((name, enc.jdump(jsonable(p)), enc.es(res)))
    return verdict


def run_all_outcomes(ctx, name, p, limit):
    fn = reset_fs.factory(name, **to_kwargs(name, p))
    n = 0
    it = enumerate_outcomes(lambda rng: fn(rng=rng), limit)
    complete = True
    unscripted = False
    states = set()
    while True:
        try:
            rng, res = next(it)
        except StopIteration as stop:
            complete = bool(stop.value)
            break
        if isinstance(res, Exception) and raised_by_harness(res):
            raise res
        n += 1
        ctx.ev()
        ctx.hit('outcomes.enumerated')
        unscripted |= bool(rng.unscripted)
        if judge(ctx, name, p, res, {'script': [int(v) for v in rng.values]}) == 'ok':
            e = enc.es(res)
            if e not in states:
                states.add(e)
                ctx.nontrivial((name, enc.jdump(jsonable(p)), e))
    if complete and not unscripted:
        ctx.hit('outcomes.exhaustive_cases')
        ctx.addset('exhaustive_cases', {'fn': name, 'params': jsonable(p), 'outcomes': n, 'distinct_states': len(states)})
    else:
        ctx.addset('truncated_cases', {'fn': name, 'params': jsonable(p), 'outcomes': n})
    return n


COLOR_SETS = [
    [], [Color.RED], [Color.NONE, Color.RED], [Color.RED, Color.BLUE], [Color.RED, Color.GREEN, Color.BLUE],
    [Color.RED, Color.GREEN, Color.BLUE, Color.YELLOW], list(Color),
]


def param_grid(name, shapes, rng, thorough):
    """parameter combinations incl. ones that cannot be honoured"""
    for shape in shapes:
        h, w = shape
        if name == 'empty':
            for ra in (False, True):
                for re_ in (False, True):
                    yield {'shape': shape, 'random_agent': ra, 'random_exit': re_}
        elif name == 'rooms':
            for ly in range(-1, 5):  # zero or a negative number of rooms along a dimension cannot be honoured
                for lx in range(-1, 5):
                    if min(ly, lx) >= 1 or max(ly, lx) <= 2:
                        yield {'shape': shape, 'layout': [ly, lx]}
        elif name == 'dynamic_obstacles':
            sat = max(0, (h - 2) * (w - 2) - 2)
            for n in sorted({-1, 0, 1, 2, sat - 1, sat, sat + 1, sat + 5}):
                for ra in (False, True):
                    yield {'shape': shape, 'num_obstacles': n, 'random_agent': ra}
        elif name == 'keydoor' or name == 'teleport':
            yield {'shape': shape}
        elif name == 'crossing':
            for n in (-1, 0, 1, 2, 3, 50):
                yield {'shape': shape, 'num_rivers': n}
            for river, ns in (('MovingObstacle', (1, 2, 50)), ('Curtain', (1, 3))):
                for n in ns:
                    yield {'shape': shape, 'num_rivers': n, 'river': river}
        elif name == 'memory':
            for cs in COLOR_SETS:
                yield {'shape': shape, 'colors': cs}
        elif name == 'memory_rooms':
            for (ly, lx) in ((1, 1), (1, 2), (2, 2), (3, 3), (2, 4), (0, 2), (2, 0), (0, 0), (-1, 1)):
                for cs in (COLOR_SETS if thorough else COLOR_SETS[1::2]):
                    for nb in (0, 1, 3):
                        for ne in (1, 2, 3, 5):
                            yield {'shape': shape, 'layout': [ly, lx], 'colors': cs, 'num_beacons': nb, 'num_exits': ne}


SMALLEST = [
    ('empty', {'shape': (4, 4), 'random_agent': True, 'random_exit': True}),
    ('empty', {'shape': (4, 5), 'random_agent': True, 'random_exit': True}),
    ('rooms', {'shape': (5, 5), 'layout': [2, 2]}),
    ('rooms', {'shape': (3, 5), 'layout': [1, 2]}),
    ('dynamic_obstacles', {'shape': (4, 4), 'num_obstacles': 1, 'random_agent': True}),
    ('dynamic_obstacles', {'shape': (4, 5), 'num_obstacles': 2, 'random_agent': False}),
    ('keydoor', {'shape': (3, 6)}),
    ('keydoor', {'shape': (4, 5)}),
    ('keydoor', {'shape': (5, 5)}),
    ('crossing', {'shape': (5, 5), 'num_rivers': 1}),
    ('crossing', {'shape': (5, 7), 'num_rivers': 2}),
    ('crossing', {'shape': (7, 7), 'num_rivers': 2}),
    ('teleport', {'shape': (4, 4)}),
    ('teleport', {'shape': (4, 5)}),
    ('memory', {'shape': (5, 5), 'colors': [Color.RED, Color.BLUE, Color.GREEN]}),
    ('memory_rooms', {'shape': (4, 5), 'layout': [1, 2], 'colors': [Color.RED, Color.BLUE], 'num_beacons': 1, 'num_exits': 2}),
    ('memory_rooms', {'shape': (3, 7), 'layout': [1, 1], 'colors': [Color.RED, Color.BLUE, Color.GREEN], 'num_beacons': 1, 'num_exits': 2}),
]


def run(ctx):
    names = list(PRED)
    with reach(ctx, [getattr(reset_fs, n) for n in names] + [design_mod.draw_room_grid, design_mod.draw_area]):
        hmax = ctx.pick(11, 16)
        shapes = [(h, w) for h in range(1, hmax + 1) for w in range(1, hmax + 1)]
        seeds = ctx.pick(3, 16)
        idx = 0
        mine = []
        for name in names:
            for p in param_grid(name, shapes, ctx.rng, ctx.thorough):
                idx += 1
                # shard by shape, so that one process sees every parameter combination of the shapes it owns
                if not ctx.mine(p['shape'][0] * 31 + p['shape'][1]):
                    continue
                if name == 'memory_rooms' and not ctx.thorough and idx % 3:
                    continue
                mine.append((idx, name, p))
        # two passes in different shuffled orders: a result must not depend on which parameter combinations were used
        # before in the same process (module-level caches keyed too coarsely, reused buffers)
        for pass_no in range(2):
            order = list(mine)
            gen.rng_for('C13order', ctx.seed, ctx.shard, pass_no).shuffle(order)
            for (idx, name, p) in order:
                if ctx.out_of_time(0.7):
                    ctx.add('grid_cases_skipped_for_time')
                    break
                first = run_seeded(ctx, name, p, ctx.seed * 7919 + idx + pass_no * 77)
                if first != 'rejected' and pass_no == 0:
                    for s in range(1, seeds):
                        run_seeded(ctx, name, p, ctx.seed * 7919 + idx + s * 1000003)
                if idx % 4999 == 0:
                    ctx.sample('grid_case', {'fn': name, 'params': jsonable(p), 'verdict': first})
            ctx.hit('passes')
        # many rooms along one dimension: sizes up to 70, 1..15 rooms, both orientations, rooms and memory_rooms
        sizes = range(3, ctx.pick(72, 130))
        idx = 0
        for size in sizes:
            for n in range(1, ctx.pick(16, 20)):
                for orient in (0, 1):
                    idx += 1
                    if not ctx.mine(size * 31 + orient):
                        continue
                    shape = (size, 5) if orient == 0 else (5, size)
                    layout = [n, 1] if orient == 0 else [1, n]
                    run_seeded(ctx, 'rooms', {'shape': shape, 'layout': layout}, ctx.seed * 13 + idx)
                    ctx.hit('long_layouts')
                    if idx % 3 == 0:
                        run_seeded(ctx, 'memory_rooms', {'shape': shape, 'layout': layout, 'colors': [Color.RED, Color.BLUE, Color.GREEN],
                                                         'num_beacons': 1, 'num_exits': 2}, ctx.seed * 13 + idx)
        for i, (name, p) in enumerate(SMALLEST):
            if ctx.mine(i):
                n = run_all_outcomes(ctx, name, dict(p), ctx.pick(3000, 200000))
                ctx.sample('all_outcomes', {'fn': name, 'params': jsonable(p), 'outcomes': n}, per_kind=3)
        ctx.extra['exhaustive'] = True


def replay(ctx, kind, payload):
    p = dict(payload['params'])
    p['shape'] = tuple(p['shape'])
    if 'colors' in p:
        p['colors'] = [Color[c] for c in p['colors']]
    name = payload['fn']
    if 'seed' in payload:
        run_seeded(ctx, name, p, payload['seed'])
    else:
        from ..scripted_rng import ScriptedRng
        fn = reset_fs.factory(name, **to_kwargs(name, p))
        ok, res = call_real(fn, rng=ScriptedRng(payload.get('script', [])))
        ctx.ev()
        judge(ctx, name, p, res, {'script': payload.get('script', [])})
