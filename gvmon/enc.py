"""Canonical deep encodings (the harness' own notion of identity) and JSON
(de)serialisation of grid objects, states and observations.

The repository's __eq__/__hash__ are *subjects* of C03/C16 (they ignore a Box's
content), never oracles: monitors compare these encodings instead.
"""
from . import boot  # noqa: F401
import hashlib
import json

from gym_gridverse.agent import Agent
from gym_gridverse.geometry import Orientation, Position
from gym_gridverse.grid import Grid
from gym_gridverse.grid_object import (
    Beacon,
    Box,
    Color,
    Door,
    Exit,
    Floor,
    Hidden,
    Key,
    MovingObstacle,
    NoneGridObject,
    Telepod,
    Wall,
    grid_object_registry,
)
from gym_gridverse.observation import Observation
from gym_gridverse.state import State


def eo(obj):
    """deep encoding of a grid object"""
    t = type(obj).__name__
    try:
        si = obj.state_index
    except Exception:  # pragma: no cover
        si = None
    c = getattr(obj, 'color', None)
    cn = c.name if isinstance(c, Color) else repr(c)
    if isinstance(obj, Box):
        return (t, si, cn, eo(obj.content))
    extra = getattr(obj, 'verif_extra', None)
    if extra is not None:  # harness-defined custom objects carrying data outside state_index
        return (t, si, cn, extra())
    return (t, si, cn)


def eg(grid):
    return (
        len(grid.objects),
        len(grid.objects[0]),
        tuple(eo(o) for row in grid.objects for o in row),
    )


def ea(agent):
    p = agent.position
    o = agent.orientation
    return (
        int(p.y),
        int(p.x),
        o.name if isinstance(o, Orientation) else repr(o),
        eo(agent.grid_object),
    )


def es(state):
    """deep encoding of a State or Observation"""
    return (eg(state.grid), ea(state.agent))


def digest(x) -> str:
    return hashlib.sha256(repr(x).encode()).hexdigest()[:16]


def h64(x) -> int:
    return int.from_bytes(hashlib.blake2b(repr(x).encode(), digest_size=8).digest(), 'big')


# ---------------------------------------------------------------- JSON


def obj_to_json(obj):
    t = type(obj).__name__
    if isinstance(obj, Box):
        return {'t': 'Box', 'content': obj_to_json(obj.content)}
    if isinstance(obj, Door):
        return {'t': t, 's': obj.state.name, 'c': obj.color.name}
    if isinstance(obj, (Exit, Key, Telepod, Beacon)):
        return {'t': t, 'c': obj.color.name}
    if t == 'Curtain':
        return {'t': t, 'opaque': bool(obj.opaque)}
    if t == 'Countdown':
        return {'t': t, 'k': int(obj.k)}
    return {'t': t}


def obj_from_json(d):
    t = d['t']
    if t == 'Box':
        return Box(obj_from_json(d['content']))
    if t == 'Door':
        return Door(Door.Status[d['s']], Color[d['c']])
    if t == 'Gate':
        return grid_object_registry.from_name(t)(Door.Status[d['s']], Color[d['c']])
    if t == 'GoalExit':
        return grid_object_registry.from_name(t)(Color[d.get('c', 'NONE')])
    if t == 'Countdown':
        return grid_object_registry.from_name(t)(d.get('k', 0))
    if t == 'Exit':
        return Exit(Color[d.get('c', 'NONE')])
    if t == 'Key':
        return Key(Color[d['c']])
    if t == 'Telepod':
        return Telepod(Color[d['c']])
    if t == 'Beacon':
        return Beacon(Color[d['c']])
    simple = {
        'Floor': Floor,
        'Wall': Wall,
        'MovingObstacle': MovingObstacle,
        'Hidden': Hidden,
        'NoneGridObject': NoneGridObject,
    }
    if t in simple:
        return simple[t]()
    if t == 'Curtain':
        return grid_object_registry.from_name(t)(d.get('opaque', False))
    return grid_object_registry.from_name(t)()


def state_to_json(state):
    return {
        'grid': [[obj_to_json(o) for o in row] for row in state.grid.objects],
        'agent': {
            'y': int(state.agent.position.y),
            'x': int(state.agent.position.x),
            'o': state.agent.orientation.name,
            'held': obj_to_json(state.agent.grid_object),
            # the library's own reset functions produce numpy-integer coordinates (rng.integers): keep that through copies
            'np': type(state.agent.position.y).__module__ == 'numpy',
        },
    }


def _grid_agent_from_json(d):
    grid = Grid([[obj_from_json(o) for o in row] for row in d['grid']])
    a = d['agent']
    y, x = a['y'], a['x']
    if a.get('np'):
        import numpy as np
        y, x = np.int64(y), np.int64(x)
    agent = Agent(Position(y, x), Orientation[a['o']], obj_from_json(a['held']))
    return grid, agent


def state_from_json(d):
    return State(*_grid_agent_from_json(d))


def observation_from_json(d):
    return Observation(*_grid_agent_from_json(d))


def short_obj(o):
    """one-token rendering used in evidence samples"""
    t = type(o).__name__
    if isinstance(o, Box):
        return f'Box<{short_obj(o.content)}>'
    if isinstance(o, Door):
        return f'Door:{o.state.name}:{o.color.name}'
    if isinstance(o, (Exit, Key, Telepod, Beacon)):
        return f'{t}:{o.color.name}'
    return t


_ABBR = {
    'Floor': '.',
    'Wall': '#',
    'Hidden': '?',
    'MovingObstacle': 'o',
}


def render(state):
    """compact multi-line rendering for evidence samples"""
    rows = []
    for y, row in enumerate(state.grid.objects):
        cells = []
        for x, o in enumerate(row):
            s = _ABBR.get(type(o).__name__) or short_obj(o)
            if (y, x) == tuple(state.agent.position.yx):
                s = '@' + s
            cells.append(s)
        rows.append(' '.join(cells))
    a = state.agent
    return {
        'rows': rows,
        'agent': [int(a.position.y), int(a.position.x), a.orientation.name],
        'held': short_obj(a.grid_object),
    }


def jdump(x):
    return json.dumps(x, sort_keys=True, default=str)
