"""Outcome injection: a scripted stand-in for numpy.random.Generator that lets
the harness enumerate *every* resolution of every random choice made by a
stochastic component (instead of sampling seeds).

Each primitive draw is "an integer in [0, n)"; the stand-in consumes a script of
such integers, records the arity of every draw, and `enumerate_outcomes` walks
the whole decision tree with an odometer.
"""
import numpy as np


class ScriptExhausted(Exception):
    pass


class ScriptedRng:
    def __init__(self, script=(), fallback_seed=0):
        self.script = list(script)
        self.pos = 0
        self.arities = []
        self.values = []
        self.unscripted = []  # generator methods used that cannot be enumerated
        self._fallback = None
        self._fallback_seed = fallback_seed

    # -- primitive
    def _draw(self, n):
        n = int(n)
        if n <= 0:
            raise ValueError('empty range')
        v = self.script[self.pos] if self.pos < len(self.script) else 0
        if v >= n:  # script recorded for a different tree shape: clamp
            v = n - 1
        self.pos += 1
        self.arities.append(n)
        self.values.append(v)
        return v

    # -- Generator API used by the repository
    def choice(self, a, size=None, replace=True, p=None, axis=0, shuffle=True):
        if p is not None:
            return self._fb('choice(p=)').choice(a, size=size, replace=replace, p=p)
        if isinstance(a, (int, np.integer)):
            n, items = int(a), None
        else:
            items = list(a)
            n = len(items)
        if size is None:
            if n <= 0:
                raise ValueError('a must be a positive integer unless no samples are taken')
            i = self._draw(n)
            return np.int64(i) if items is None else items[i]
        k = int(size)
        if k < 0:
            raise ValueError('negative dimensions are not allowed')
        if k > 0 and n <= 0:
            raise ValueError('a must be a positive integer unless no samples are taken')
        if replace:
            idx = [self._draw(n) for _ in range(k)]
        else:
            if k > n:
                raise ValueError('Cannot take a larger sample than population when replace is False')
            pool = list(range(n))
            idx = []
            for _ in range(k):
                j = self._draw(len(pool))
                idx.append(pool.pop(j))
        if items is None:
            return np.array(idx, dtype=np.int64)
        return [items[i] for i in idx]

    def integers(self, low, high=None, size=None, dtype=np.int64, endpoint=False):
        if high is None:
            low, high = 0, low
        if not isinstance(low, (int, np.integer)) or not isinstance(high, (int, np.integer)):
            return self._fb('integers(array bounds)').integers(low, high, size=size, endpoint=endpoint)
        low, high = int(low), int(high)
        if endpoint:
            high += 1
        if high <= low:
            raise ValueError('low >= high')
        if size is not None:
            shape = (int(size),) if isinstance(size, (int, np.integer)) else tuple(int(k) for k in size)
            n = int(np.prod(shape)) if shape else 1
            return np.array([low + self._draw(high - low) for _ in range(n)], dtype=np.int64).reshape(shape)
        return np.int64(low + self._draw(high - low))

    def shuffle(self, x, axis=0):
        # Fisher-Yates: every permutation corresponds to exactly one script
        for i in range(len(x) - 1, 0, -1):
            j = self._draw(i + 1)
            x[i], x[j] = x[j], x[i]

    def permutation(self, x):
        items = list(range(x)) if isinstance(x, (int, np.integer)) else list(x)
        self.shuffle(items)
        return np.array(items) if isinstance(x, (int, np.integer)) else items

    def _fb(self, what):
        self.unscripted.append(what)
        if self._fallback is None:
            self._fallback = np.random.default_rng(self._fallback_seed)
        return self._fallback

    def random(self, size=None, *a, **k):
        return self._fb('random').random(size, *a, **k)

    def __getattr__(self, name):
        if name.startswith('__'):
            raise AttributeError(name)
        return getattr(self._fb(name), name)


def enumerate_outcomes(fn, limit=100000):
    """yield (rng, result_or_exception) for every resolution of the random
    choices `fn(rng)` makes.  Stops after `limit` outcomes (then the caller must
    not claim exhaustiveness): the generator's return value is True iff the
    enumeration completed."""
    script = []
    count = 0
    while True:
        rng = ScriptedRng(script)
        try:
            result = fn(rng)
        except Exception as e:  # the caller decides what an exception means
            result = e
        yield rng, result
        count += 1
        values, arities = rng.values, rng.arities
        i = len(values) - 1
        while i >= 0 and values[i] + 1 >= arities[i]:
            i -= 1
        if i < 0:
            return True
        if count >= limit:
            return False
        script = values[:i] + [values[i] + 1]


def all_outcomes(fn, limit=100000):
    """list of (rng, result) and a completeness flag"""
    out = []
    gen = enumerate_outcomes(fn, limit)
    while True:
        try:
            out.append(next(gen))
        except StopIteration as stop:
            return out, bool(stop.value)
