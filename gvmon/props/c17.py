"""C17 — configurations build exactly the environment they describe, or are
rejected.  See DESIGN.md §2 C17."""
from .. import boot
import copy
import filecmp
import os

import numpy as np

import gym
import schema as schema_lib

from gym_gridverse import gym as gv_gym
from gym_gridverse.action import Action
from gym_gridverse.envs import (
    observation_functions as observation_fs,
    reset_functions as reset_fs,
    reward_functions as reward_fs,
    terminating_functions as terminating_fs,
    transition_functions as transition_fs,
    visibility_functions as visibility_fs,
)
from gym_gridverse.envs.yaml import factory as yaml_factory
from gym_gridverse.envs.yaml.factory import factory_env_from_data, factory_env_from_yaml
from gym_gridverse.geometry import Position
from gym_gridverse.utils import functions as functions_mod

from .. import compose, dyndrive, enc, gen, workloads
from ..monitor import call_real, describe_exc, reach
from . import c12

ID = 'C17'
LEVEL = 'exploration'
DEBUG_TOGGLE = True  # runner flips the library debug flag every 97 monitored executions
TECHNIQUE = 'runtime monitoring: differential trace monitor between the environment built by the real YAML factory and one assembled by an independent interpreter of the same dictionary (compose.py); byte/registry inspection of packaged copies and gym ids; input-immutability and repeatability monitors; exception-class monitor over systematic corruptions of every shipped file; factory(name, **kw) vs registry[name] differential on sample inputs'
LEVEL_TEXT = ('Every shipped file (yaml/, registered_envs/, examples/coin_env.yaml) must be byte-identical to its packaged copy, be the '
              'target of its gym id, validate, build, leave the input dictionary unchanged, build the same environment twice, and '
              'produce - for several seeds and action sequences - exactly the trace of the environment assembled by hand from the '
              'named registry functions with the accepted parameters. Every component factory(name, **kw) (6 registries) is '
              'compared with the underlying function partially applied to the accepted subset of kw (junk parameters added). '
              'Systematic corruptions of every file (unknown names at every level, each required parameter deleted, 12 malformed '
              'shapes/layouts, 7 malformed colour/object/action lists, missing/extra top-level keys) must be rejected with '
              'SchemaError or ValueError and must never build.'
              ' Also: independent and interleaved builds, falsy parameters, valid variations (reordered keys and lists, nested composites, distance functions by name), custom-name corruptions, every gym id resolved by what it builds.')
LEVEL_NOTE = ('Trusted: compose.py (independent interpreter). Not demanded: exception class for a malformed `area` and for an unknown '
              'custom module (outside the statement); unknown extra parameters are ignored by design.')
SHARDS = {'quick': 4, 'thorough': 16}
BUDGET_S = {'quick': 300, 'thorough': 2400}
RULE = ('case = (file, seed, action sequence) differential trace; or (file, corruption); or (registry, name, parameter set). '
        'non-trivial = corruption cases and traces with at least one reset-on-termination; distinct by (file, corruption id) resp. '
        '(file, seed).')
ASSUMPTIONS = ['hand assembly: registry lookup, reserved keys converted, parameters filtered by inspect.signature, functools.partial']
REQUIRED = {'quick': {'files.identical': 21, 'ids.checked': 21, 'traces.compared': 44, 'trace.steps': 3000, 'input_unchanged': 22,
                      'corruptions.rejected': 600, 'component_factory.compared': 300, 'variations.compared': 100,
                      'independent_builds': 22, 'interleaved_builds': 22, 'falsy_parameters.compared': 40}}


def trace_of(env, seed, actions):
    env.set_seed(seed)
    out = []
    env.reset()
    out.append(('reset', enc.digest(enc.es(env.state)), enc.digest(enc.es(env.observation))))
    for i in actions:
        acts = env.action_space.actions
        a = acts[i % len(acts)]
        r, d = env.step(a)
        out.append((a.name, repr(r), d, enc.digest(enc.es(env.state)), enc.digest(enc.es(env.observation))))
        if d:
            env.reset()
            out.append(('reset', enc.digest(enc.es(env.state)), enc.digest(enc.es(env.observation))))
    return out


def spaces_of(env):
    ss, os_ = env.state_space, env.observation_space
    return ((ss.grid_shape.height, ss.grid_shape.width), sorted(t.__name__ for t in ss.object_types),
            sorted(c.name for c in ss.colors), (os_.grid_shape.height, os_.grid_shape.width),
            sorted(t.__name__ for t in os_.object_types), sorted(c.name for c in os_.colors),
            [a.name for a in env.action_space.actions])


def shipped_file_checks(ctx):
    """packaged copies identical; every gym id points to its packaged file"""
    ydir = os.path.join(boot.REPO, 'yaml')
    pdir = os.path.join(boot.REPO, 'gym_gridverse', 'registered_envs')
    names = sorted(f for f in os.listdir(ydir) if f.endswith('.yaml'))
    pnames = sorted(f for f in os.listdir(pdir) if f.endswith('.yaml'))
    if names != pnames:
        ctx.violation('shipped', 'packaged.file_sets_differ', f'yaml/ has {set(names) - set(pnames)} extra, registered_envs/ has '
                      f'{set(pnames) - set(names)} extra', 'files', {})
    for f in names:
        ctx.ev()
        if f in pnames:
            ctx.hit('files.identical')
            if open(os.path.join(ydir, f), 'rb').read() != open(os.path.join(pdir, f), 'rb').read():
                ctx.violation('shipped', 'packaged.copy_differs', f'{f}: packaged copy differs from yaml/{f}', 'files', {'file': f})
    targets = set()
    for env_id, fname in gv_gym.STRING_TO_YAML_FILE.items():
        ctx.ev()
        ctx.hit('ids.checked')
        targets.add(fname)
        if fname not in pnames:
            ctx.violation('shipped', 'gym_id.points_nowhere', f'{env_id} -> {fname} which is not packaged', 'files', {'id': env_id})
            continue
        spec = gym.envs.registry.get(env_id) if hasattr(gym.envs.registry, 'get') else gym.envs.registry.env_specs.get(env_id)
        if spec is None:
            ctx.violation('shipped', 'gym_id.not_registered', f'{env_id} is not registered', 'files', {'id': env_id})
            continue
        # which file the id leads to is decided by what gets built (how the registration stores it is the library's business):
        # the environment made from the id has the spaces of, and behaves like, the one built from the packaged file
        ok_m, made = call_real(gym.make, env_id, disable_env_checker=True)
        ok_f, built = call_real(factory_env_from_yaml, os.path.join(pdir, fname))
        if not ok_m or not ok_f:
            bad = made if not ok_m else built
            ctx.violation('shipped', 'gym_id.does_not_build', f'{env_id} / {fname}: {describe_exc(bad)}', 'files', {'id': env_id})
            continue
        inner = made.unwrapped.outer_env.inner_env
        probe = [3, 1, 0, 5, 2, 0, 0, 4, 6, 7, 0, 1, 0, 2, 0]
        ok_a, ta = call_real(trace_of, inner, 11, probe)
        ok_b, tb = call_real(trace_of, built, 11, probe)
        if spaces_of(inner) != spaces_of(built) or ok_a != ok_b or (ok_a and ta != tb):
            ctx.violation('shipped', 'gym_id.wrong_file', f'{env_id} does not build the environment described by registered_envs/{fname} '
                          f'(spaces equal: {spaces_of(inner) == spaces_of(built)})', 'files', {'id': env_id})
        # the id's name and the file must describe the same family/size, e.g. GV-Keydoor-5x5-v0 <-> gv_keydoor.5x5.yaml
        fam = ''.join(ch for ch in env_id[3:-3].lower() if ch.isalnum())
        if fam != ''.join(ch for ch in fname[3:-5].lower() if ch.isalnum()):
            ctx.violation('shipped', 'gym_id.name_mismatch', f'{env_id} points to {fname}', 'files', {'id': env_id})
    if targets != set(pnames):
        ctx.violation('shipped', 'gym_id.unreferenced_files', f'packaged files without a gym id: {sorted(set(pnames) - targets)}',
                      'files', {})


def differential(ctx, name, path, data, seeds, nsteps):
    payload = {'file': name}
    snapshot = copy.deepcopy(data)
    ok, env = call_real(factory_env_from_data, data)
    ctx.ev()
    if not ok:
        ctx.violation('build', 'shipped.does_not_build', f'{name}: factory raised {describe_exc(env)}', 'diff_case', payload)
        return
    ctx.hit('input_unchanged')
    if enc.jdump(data) != enc.jdump(snapshot):
        ctx.violation('build', 'factory.mutates_input', f'{name}: factory_env_from_data modified the data passed to it', 'diff_case', payload)
        data = snapshot
    ok, env_file = call_real(factory_env_from_yaml, path)
    if not ok:
        ctx.violation('build', 'shipped.does_not_build', f'{name}: factory_env_from_yaml raised {describe_exc(env_file)}', 'diff_case', payload)
        return
    ok, env2 = call_real(factory_env_from_data, data)
    okf2, env_file2 = call_real(factory_env_from_yaml, path)
    ctx.hit('independent_builds')
    if okf2 and env_file2 is env_file:
        ctx.violation('build', 'build.not_repeatable_shared_object',
                      f'{name}: building the same file twice returned the same environment object', 'diff_case', payload)
    ok3, ref = call_real(compose.build_env, snapshot)
    if not ok3:
        raise ref
    if len({repr(spaces_of(e)) for e in (env, env2, env_file, ref)}) != 1:
        ctx.violation('build', 'spaces.differ_from_description',
                      f'{name}: spaces built {spaces_of(env)} vs described {spaces_of(ref)}', 'diff_case', payload)
    for s in seeds:
        rng = gen.rng_for('C17actions', name, s)
        actions = [rng.randrange(64) for _ in range(nsteps)]
        ok, t_fac = call_real(trace_of, env, s, actions)
        ok2, t_ref = call_real(trace_of, ref, s, actions)
        ok4, t_again = call_real(trace_of, env2, s, actions)
        ok5, t_file = call_real(trace_of, env_file, s, actions)
        ctx.ev()
        ctx.hit('traces.compared')
        if not (ok and ok2 and ok4 and ok5):
            bad = next(t for o, t in ((ok, t_fac), (ok2, t_ref), (ok4, t_again), (ok5, t_file)) if not o)
            ctx.violation('build', 'trace.raises', f'{name} seed {s}: {describe_exc(bad)}', 'diff_case', dict(payload, seed=s))
            continue
        ctx.hit('trace.steps', len(t_fac))
        if any(e[0] == 'reset' for e in t_fac[1:]):
            ctx.nontrivial((name, s))
        for label, other in (('hand-assembled environment', t_ref), ('second build from the same data', t_again),
                             ('build from the file', t_file)):
            if other != t_fac:
                i = next(i for i, (a, b) in enumerate(zip(t_fac, other)) if a != b) if len(other) == len(t_fac) else min(len(other), len(t_fac))
                ctx.violation('build', 'trace.differs.' + label.split()[0],
                              f'{name} seed {s}: trace of the factory-built environment differs from the {label} at entry #{i}: '
                              f'{t_fac[i] if i < len(t_fac) else None} vs {other[i] if i < len(other) else None}', 'diff_case',
                              dict(payload, seed=s))
    # two builds of the same file used interleaved must behave like two independent environments
    if okf2:
        s0 = seeds[0]
        rng = gen.rng_for('C17inter', name, s0)
        actions = [rng.randrange(64) for _ in range(min(nsteps, 120))]
        ok_r, t_solo = call_real(trace_of, ref, s0, actions)
        ok_i, t_inter = call_real(interleaved_trace, env_file, env_file2, s0, s0 + 1, actions)
        ctx.ev()
        ctx.hit('interleaved_builds')
        if ok_r and ok_i and t_inter != t_solo:
            ctx.violation('build', 'build.not_repeatable_interleaved',
                          f'{name}: an environment built from the file, used interleaved with a second build of the same file, does not '
                          f'behave like the hand-assembled environment used alone', 'diff_case', dict(payload, seed=s0))
    ctx.addset('configs', name)


def interleaved_trace(env_a, env_b, seed_a, seed_b, actions):
    """trace of env_a while env_b (another build) is driven between its operations"""
    env_a.set_seed(seed_a)
    env_b.set_seed(seed_b)
    out = []
    env_a.reset()
    env_b.reset()
    out.append(('reset', enc.digest(enc.es(env_a.state)), enc.digest(enc.es(env_a.observation))))
    for k, i in enumerate(actions):
        acts = env_a.action_space.actions
        a = acts[i % len(acts)]
        env_b.step(env_b.action_space.actions[(i + k) % len(env_b.action_space.actions)])
        if k % 7 == 3:
            env_b.reset()
        r, d = env_a.step(a)
        out.append((a.name, repr(r), d, enc.digest(enc.es(env_a.state)), enc.digest(enc.es(env_a.observation))))
        if d:
            env_a.reset()
            out.append(('reset', enc.digest(enc.es(env_a.state)), enc.digest(enc.es(env_a.observation))))
    return out


def valid_variations(data):
    """edited but still valid configurations: every numeric parameter set to zero, every boolean flipped; terminating
    function nested one and two levels deep; junk parameters on nested specs; observation through from_visibility with a
    nested visibility function"""
    out = []

    def reordered(node):
        if isinstance(node, dict):
            return {k: reordered(node[k]) for k in reversed(list(node.keys()))}
        if isinstance(node, list):
            return [reordered(v) for v in node]
        return node
    out.append(('keys of every mapping in reverse order', reordered(copy.deepcopy(data))))
    d = copy.deepcopy(data)
    d['transition_functions'] = list(reversed(d['transition_functions']))
    d['reward_functions'] = list(reversed(d['reward_functions']))
    for space in ('state_space', 'observation_space'):
        d[space]['objects'] = list(reversed(d[space]['objects']))
        d[space]['colors'] = list(reversed(d[space]['colors']))
    out.append(('lists (transitions, rewards, declared objects and colours) in reverse order', d))
    # the action list is an *ordered* description (index i of the gym adapter is the i-th listed action)
    listed = list(data.get('action_space') or [a.name for a in Action])
    d = copy.deepcopy(data)
    d['action_space'] = list(reversed(listed))
    out.append(('action list in reverse order', d))
    d = copy.deepcopy(data)
    d['action_space'] = [listed[i] for i in range(len(listed)) if i % 2 == 1] + [listed[0]]
    out.append(('action sub-list, first listed action last', d))
    term = data['terminating_function']
    d = copy.deepcopy(data)
    d['terminating_function'] = {'name': 'reduce_any', 'terminating_functions': [copy.deepcopy(term)]}
    out.append(('terminating nested in reduce_any', d))
    d = copy.deepcopy(data)
    d['terminating_function'] = {'name': 'reduce_all', 'terminating_functions': [
        {'name': 'reduce_any', 'terminating_functions': [copy.deepcopy(term), {'name': 'bump_into_wall'}]}, copy.deepcopy(term)]}
    out.append(('terminating nested two levels', d))
    d = copy.deepcopy(data)
    d['terminating_function'] = {'name': 'reduce_any', 'terminating_functions': [
        dict(copy.deepcopy(term), reward=0.0, reward_on=3.0, surprise=1), {'name': 'bump_into_wall', 'reward': 0.0}]}
    out.append(('nested terminating with parameters it does not accept', d))
    d = copy.deepcopy(data)
    d['reward_functions'] = [{'name': 'reduce_sum', 'reward_functions': copy.deepcopy(data['reward_functions'])},
                             {'name': 'living_reward', 'reward': 0.0, 'object_type': 'Wall', 'surprise': 2}]
    out.append(('rewards nested in reduce_sum + ignored parameters', d))
    # distance shaping named in the configuration (distance functions by name, object type by name), for worlds with one exit
    if 'Exit' in data['state_space']['objects'] and 'Beacon' not in data['state_space']['objects']:
        for dist in ('euclidean', 'manhattan'):
            d = copy.deepcopy(data)
            d['reward_functions'] = list(d['reward_functions']) + [
                {'name': 'proportional_to_distance', 'distance_function': dist, 'object_type': 'Exit', 'reward_per_unit_distance': -0.25},
                {'name': 'getting_closer', 'distance_function': dist, 'object_type': 'Exit', 'reward_closer': 0.5, 'reward_further': -0.75}]
            out.append((f'distance shaping with distance_function={dist}', d))
    obs = data['observation_function']
    if obs['name'] in ('partially_occluded', 'raytracing', 'fully_transparent', 'stochastic_raytracing'):
        for vname, extra in ((obs['name'], {}), ('raytracing', {'absolute_counts': False, 'threshold': 0.5}),
                             ('raytracing', {'threshold': 2, 'surprise': 'x'})):
            d = copy.deepcopy(data)
            d['observation_function'] = {'name': 'from_visibility', 'area': copy.deepcopy(obs['area']),
                                         'visibility_function': dict({'name': vname}, **extra)}
            out.append((f'from_visibility with nested {vname} {extra}', d))
    for path in walk_functions(data):
        spec = get_path(data, path)
        for key, value in spec.items():
            if key == 'name' or isinstance(value, (list, dict, str)) or value is None:
                continue
            new = (not value) if isinstance(value, bool) else type(value)(0)
            if new == value and not isinstance(value, bool):
                new = type(value)(2)
            d = copy.deepcopy(data)
            get_path(d, path)[key] = new
            out.append((f'{key}={new!r}@' + '/'.join(map(str, path)), d))
    return out


def variation_checks(ctx, name, data, seed, nsteps):
    for vid, var in valid_variations(data):
        payload = {'file': name, 'variation': vid}
        ok_r, ref = call_real(compose.build_env, copy.deepcopy(var))
        given = copy.deepcopy(var)
        ok_f, env = call_real(factory_env_from_data, given)
        ctx.ev()
        if ok_f:
            if enc.jdump(given) != enc.jdump(var):
                ctx.violation('build', 'factory.mutates_input', f'{name} [{vid}]: factory_env_from_data modified the data passed to it',
                              'variation_case', payload)
            ok_again, _ = call_real(factory_env_from_data, given)
            if not ok_again:
                ctx.violation('build', 'build.not_repeatable', f'{name} [{vid}]: a second build from the same data failed: {describe_exc(_)}',
                              'variation_case', payload)
        if not ok_r:
            # the hand assembly rejects it too (e.g. num_obstacles too large): the factory must reject it as well
            if ok_f:
                ctx.violation('build', 'variation.accepted_but_not_buildable_by_hand', f'{name} [{vid}]: factory built what the '
                              f'named components reject ({describe_exc(ref)})', 'variation_case', payload)
            continue
        ctx.hit('variations.compared')
        ctx.nontrivial((name, vid))
        if not ok_f:
            ctx.violation('build', 'variation.rejected', f'{name} [{vid}]: valid edited configuration rejected with {describe_exc(env)}',
                          'variation_case', payload)
            continue
        rng = gen.rng_for('C17var', name, vid)
        actions = [rng.randrange(64) for _ in range(nsteps)]
        ok1, t1 = call_real(trace_of, env, seed, actions)
        ok2, t2 = call_real(trace_of, ref, seed, actions)
        if ok1 != ok2 or (ok1 and t1 != t2):
            ctx.violation('build', 'variation.trace_differs',
                          f'{name} [{vid}]: the factory-built environment of the edited configuration behaves differently from the '
                          f'hand-assembled one', 'variation_case', payload)


# ------------------------------------------------------------------ corruptions


MALFORMED_PAIRS = [[5], [5, 5, 5], [0, 5], [-1, 5], ['a', 5], 5, 'x', [5.5, 5], None, [], [[5, 5]], {'h': 5}]
MALFORMED_LISTS = [[], ['PURPLE'], 'RED', [1], None, {'a': 1}]


def walk_functions(data):
    """paths to every component spec (dict with 'name') at every nesting level"""
    out = []

    def rec(node, path):
        if isinstance(node, dict):
            if 'name' in node:
                out.append(path)
            for k, v in node.items():
                rec(v, path + [k])
        elif isinstance(node, list):
            for i, v in enumerate(node):
                rec(v, path + [i])
    rec(data, [])
    return out


def get_path(data, path):
    for p in path:
        data = data[p]
    return data


def corruptions(data):
    """(id, corrupted copy)"""
    out = []
    for path in walk_functions(data):
        d = copy.deepcopy(data)
        get_path(d, path)['name'] = 'no_such_component_xyz'
        out.append(('unknown_name@' + '/'.join(map(str, path)), d))
        spec = get_path(data, path)
        kind = kind_of(path)
        # a name that exists, but only in the registry of another kind of component
        foreign = {'reset': 'move_agent', 'transition': 'living_reward', 'reward': 'turn_agent', 'terminating': 'living_reward',
                   'observation': 'keydoor', 'visibility': 'actuate_door'}[kind]
        d = copy.deepcopy(data)
        get_path(d, path)['name'] = foreign
        out.append((f'foreign_name={foreign}@' + '/'.join(map(str, path)), d))
        # custom-name syntax `module:name`: an empty module part, and a module that cannot be loaded because it registers a
        # component under a name that is already taken (its import fails with the registry's ValueError); building the
        # built-in component of that name instead would silently ignore what the configuration asks for
        if ':' not in spec['name']:
            d = copy.deepcopy(data)
            get_path(d, path)['name'] = ':' + spec['name']
            out.append(('empty_module_name@' + '/'.join(map(str, path)), d))
            d = copy.deepcopy(data)
            get_path(d, path)['name'] = 'gvmon.colliding_components:' + spec['name']
            out.append(('colliding_module@' + '/'.join(map(str, path)), d))
            # a module that does not exist: the name is unknown - a value error, like any other unknown name
            d = copy.deepcopy(data)
            get_path(d, path)['name'] = 'no_such_module_xyz:' + spec['name']
            out.append(('unknown_module@' + '/'.join(map(str, path)), d))
        required = required_params(kind, spec['name'])
        for rp in required:
            if rp in spec:
                d = copy.deepcopy(data)
                del get_path(d, path)[rp]
                out.append((f'missing_{rp}@' + '/'.join(map(str, path)), d))
        for key in ('shape', 'layout'):
            if key in spec:
                for i, bad in enumerate(MALFORMED_PAIRS):
                    d = copy.deepcopy(data)
                    get_path(d, path)[key] = copy.deepcopy(bad)
                    out.append((f'{key}={bad!r}@' + '/'.join(map(str, path)), d))
        if 'colors' in spec:
            for bad in MALFORMED_LISTS + [['RED', 'RED']]:
                d = copy.deepcopy(data)
                get_path(d, path)['colors'] = copy.deepcopy(bad)
                out.append((f'colors={bad!r}@' + '/'.join(map(str, path)), d))
        if 'object_type' in spec:
            d = copy.deepcopy(data)
            get_path(d, path)['object_type'] = 'NoSuchObject'
            out.append(('object_type=NoSuchObject@' + '/'.join(map(str, path)), d))
    for bad_dist in ('chebyshev', '', 'Manhattan', 3, None, ['manhattan']):
        d = copy.deepcopy(data)
        d['reward_functions'] = list(d['reward_functions']) + [
            {'name': 'getting_closer', 'distance_function': bad_dist, 'object_type': 'Exit', 'reward_closer': 0.5, 'reward_further': -0.75}]
        out.append((f'distance_function={bad_dist!r}', d))
    obs = data['observation_function']
    if 'area' in obs:
        for bad_vis in ({'name': 'no_such_visibility'}, {'nome': 'raytracing'}, 'raytracing', {'name': 'living_reward'}, None):
            d = copy.deepcopy(data)
            d['observation_function'] = {'name': 'from_visibility', 'area': copy.deepcopy(obs['area']), 'visibility_function': copy.deepcopy(bad_vis)}
            out.append((f'visibility_function={bad_vis!r}', d))
    for space in ('state_space', 'observation_space'):
        for key in ('colors', 'objects'):
            for bad in MALFORMED_LISTS + [[data[space][key][0], data[space][key][0]]]:
                d = copy.deepcopy(data)
                d[space][key] = copy.deepcopy(bad)
                out.append((f'{space}.{key}={bad!r}', d))
        d = copy.deepcopy(data)
        del d[space]['colors']
        out.append((f'{space}.colors missing', d))
        d = copy.deepcopy(data)
        d[space]['objects'] = list(d[space]['objects']) + ['NoSuchObject']
        out.append((f'{space}.objects+unknown', d))
    for bad in MALFORMED_LISTS + [['MOVE_FORWARD', 'MOVE_FORWARD'], ['JUMP'], ['move_forward']]:
        d = copy.deepcopy(data)
        d['action_space'] = copy.deepcopy(bad)
        out.append((f'action_space={bad!r}', d))
    for key in list(data.keys()):
        if key != 'action_space':
            d = copy.deepcopy(data)
            del d[key]
            out.append((f'missing top-level {key}', d))
    d = copy.deepcopy(data)
    d['surprise'] = 1
    out.append(('extra top-level key', d))
    for key in ('transition_functions', 'reward_functions'):
        d = copy.deepcopy(data)
        d[key] = []
        out.append((f'{key}=[]', d))
        d = copy.deepcopy(data)
        d[key] = d[key][0]
        out.append((f'{key} not a list', d))
    return out


def kind_of(path):
    for p in reversed(path):
        if isinstance(p, str):
            for k in ('reset', 'transition', 'reward', 'observation', 'terminating', 'visibility'):
                if p.startswith(k):
                    return k
    return 'reset'


def required_params(kind, name):
    import inspect
    try:
        fn = compose.REGISTRY[kind]()[compose._strip_custom(name)]
    except Exception:
        return []
    params = inspect.signature(fn).parameters
    n_pos = {'reset': 0, 'transition': 2, 'reward': 3, 'terminating': 3, 'observation': 1, 'visibility': 2}[kind]
    return [p for i, p in enumerate(params) if i >= n_pos and p != 'rng' and params[p].default is inspect.Parameter.empty]


def corruption_checks(ctx, name, data):
    for i, (cid, bad) in enumerate(corruptions(data)):
        payload = {'file': name, 'corruption': cid}
        ok, res = call_real(factory_env_from_data, copy.deepcopy(bad))
        ctx.ev()
        ctx.nontrivial((name, cid))
        if ok:
            ctx.violation('reject', 'corruption.builds.' + cid.split('@')[0].split('=')[0],
                          f'{name}: corrupted configuration [{cid}] was accepted and built an environment', 'corrupt_case', payload)
        elif isinstance(res, (schema_lib.SchemaError, ValueError)):
            ctx.hit('corruptions.rejected')
            ctx.cat('rejected_with.' + type(res).__name__)
        else:
            ctx.violation('reject', 'corruption.wrong_exception.' + cid.split('@')[0].split('=')[0],
                          f'{name}: corrupted configuration [{cid}] failed with {describe_exc(res)} instead of a schema/value error',
                          'corrupt_case', payload)
        if i % 97 == 0:
            ctx.sample('corruption', {'file': name, 'corruption': cid,
                                      'outcome': 'built' if ok else type(res).__name__}, per_kind=3)


# ------------------------------------------------------------------ component factories


FACTORY_MODULES = {'reset': reset_fs, 'transition': transition_fs, 'reward': reward_fs, 'terminating': terminating_fs,
                   'observation': observation_fs, 'visibility': visibility_fs}


def converted(kind, spec):
    out = {}
    for k, v in spec.items():
        if k != 'name':
            out[k] = compose._convert(kind, k, v)
    return out


def component_factories(ctx, n):
    """factory(name, **kw) behaves like the registry function with the accepted subset of kw"""
    junk = {'surprise_parameter': 3, 'area_of_effect': 'x', 'reward': 9.75, 'shape': None}
    for k in range(n):
        rng = gen.rng_for('C17comp', ctx.seed, ctx.shard, k)
        comp = workloads.Composition(rng, force_all_actions=True)
        triples = c12.make_triples(ctx, comp, rng, 4)
        specs = [('reward', r) for r in comp.rewards] + [('terminating', comp.terminating), ('observation', comp.observation)]
        specs += [('transition', t) for t in comp.transitions]
        specs += [('transition', {'name': 'chain', 'transition_functions': comp.transitions})]
        if 'visibility_function' in comp.observation:
            specs.append(('visibility', comp.observation['visibility_function']))
        specs.append(('reset', rng.choice([{'name': 'rooms', 'shape': [7, 7], 'layout': [2, 2]}, {'name': 'keydoor', 'shape': [5, 6]},
                                           {'name': 'dynamic_obstacles', 'shape': [6, 6], 'num_obstacles': 2, 'random_agent': True},
                                           {'name': 'memory', 'shape': [5, 7], 'colors': ['RED', 'BLUE', 'GREEN']},
                                           {'name': 'crossing', 'shape': [7, 7], 'num_rivers': 2, 'object_type': 'Wall'}])))
        for kind, spec in specs:
            kw = converted(kind, spec)
            extra = {jk: jv for jk, jv in junk.items() if jk not in kw and jk not in required_params(kind, spec['name'])
                     and not accepts(kind, spec['name'], jk)}
            ok, f = call_real(FACTORY_MODULES[kind].factory, spec['name'], **kw, **extra)
            ref = compose.build(kind, spec)
            ctx.ev()
            ctx.hit('component_factory.compared')
            payload = {'kind': kind, 'spec': spec}
            if not ok:
                ctx.violation('component', f'factory.raises.{kind}', f'{kind}.factory({spec["name"]}, ...) raised {describe_exc(f)}',
                              'factory_case', payload)
                continue
            try:
                same = outputs(kind, f, triples, comp, rng.randrange(2**32)) == outputs(kind, ref, triples, comp, None)
            except Exception as e:
                from ..monitor import raised_by_harness
                if raised_by_harness(e):
                    raise
                same = True  # both sides are the same real function; exceptions are C01/C12 business
            if not same:
                ctx.violation('component', f'factory.differs.{kind}.{spec["name"]}',
                              f'{kind}.factory({spec["name"]}, **kw + junk) behaves differently from registry[{spec["name"]}] with the '
                              f'accepted parameters', 'factory_case', payload)
        if k == 0:
            falsy_parameters(ctx, triples, comp)
        # unknown names and missing required parameters at the component level
        for kind, mod in FACTORY_MODULES.items():
            ok, res = call_real(mod.factory, 'no_such_component_xyz')
            if ok or not isinstance(res, ValueError):
                ctx.violation('reject', f'factory.unknown_name.{kind}', f'{kind}.factory(unknown) -> {res!r}', 'factory_case', {'kind': kind})
        for kind, spec in specs:
            for rp in required_params(kind, spec['name']):
                kw = converted(kind, spec)
                kw.pop(rp, None)
                ok, res = call_real(FACTORY_MODULES[kind].factory, spec['name'], **kw)
                if ok or not isinstance(res, ValueError):
                    ctx.violation('reject', f'factory.missing_required.{kind}',
                                  f'{kind}.factory({spec["name"]}) without {rp} -> {res!r}', 'factory_case', {'kind': kind, 'spec': spec})


def falsy_parameters(ctx, triples, comp):
    """every optional numeric/boolean parameter of every registered function given as 0 / 0.0 / False
    (where that differs from the default) must reach the function"""
    import functools
    import inspect
    for kind, mod in FACTORY_MODULES.items():
        reg = compose.REGISTRY[kind]()
        n_pos = {'reset': 0, 'transition': 2, 'reward': 3, 'terminating': 3, 'observation': 1, 'visibility': 2}[kind]
        for name in list(reg.keys()):
            fn = reg[name]
            params = inspect.signature(fn).parameters
            base = {}
            skip = False
            for i, (pn, pp) in enumerate(params.items()):
                if i < n_pos or pn == 'rng':
                    continue
                if pp.default is inspect.Parameter.empty:
                    if pn == 'object_type':
                        base[pn] = comp.types[0]
                    elif pn == 'area':
                        base[pn] = comp.area
                    elif pn == 'shape':
                        from gym_gridverse.geometry import Shape
                        base[pn] = Shape(6, 7)
                    elif pn == 'num_obstacles':
                        base[pn] = 2
                    else:
                        skip = True
            if skip:
                continue
            for pn, pp in params.items():
                d = pp.default
                if pn in base or d is inspect.Parameter.empty or not isinstance(d, (bool, int, float)) or not d:
                    continue
                kw = dict(base)
                kw[pn] = type(d)(0)
                ok, f = call_real(mod.factory, name, **kw)
                ref = functools.partial(fn, **kw)
                ctx.ev()
                ctx.hit('falsy_parameters.compared')
                payload = {'kind': kind, 'spec': {'name': name, pn: kw[pn]}}
                if not ok:
                    ctx.violation('component', f'factory.raises.{kind}', f'{kind}.factory({name}, {pn}={kw[pn]!r}) raised {describe_exc(f)}',
                                  'factory_case', payload)
                    continue
                try:
                    same = outputs(kind, f, triples, comp, 12345) == outputs(kind, ref, triples, comp, None)
                except Exception as e:
                    from ..monitor import raised_by_harness
                    if raised_by_harness(e):
                        raise
                    same = True
                if not same:
                    ctx.violation('component', f'factory.drops_falsy_parameter.{kind}',
                                  f'{kind}.factory({name}, {pn}={kw[pn]!r}) behaves differently from {name} called with {pn}={kw[pn]!r}',
                                  'factory_case', payload)


def accepts(kind, name, param):
    import inspect
    fn = compose.REGISTRY[kind]()[compose._strip_custom(name)]
    return param in inspect.signature(fn).parameters


_SEED = [0]


def outputs(kind, f, triples, comp, seed):
    if seed is not None:
        _SEED[0] = seed
    seed = _SEED[0]
    out = []
    if kind == 'reset':
        for s in range(3):
            out.append(enc.es(f(rng=np.random.default_rng(seed + s))))
    elif kind == 'transition':
        for (s, a, ns, _) in triples:
            c = dyndrive.copy_state(s)
            f(c, a, rng=np.random.default_rng(seed))
            out.append(enc.es(c))
    elif kind in ('reward', 'terminating'):
        for (s, a, ns, _) in triples:
            out.append(repr(f(s, a, ns)))
    elif kind == 'observation':
        for (s, a, ns, _) in triples:
            out.append(enc.es(f(s, rng=np.random.default_rng(seed))))
    elif kind == 'visibility':
        for (s, a, ns, _) in triples:
            if kind == 'visibility':
                p = Position(s.grid.shape.height - 1, min(s.agent.position.x, s.grid.shape.width - 1))
                out.append(f(s.grid, p, rng=np.random.default_rng(seed)).tolist())
    return out


def run(ctx):
    configs = compose.shipped_configs()
    with reach(ctx, [yaml_factory.factory_env_from_data, yaml_factory.process_reserved_keys, functions_mod.select_kwargs,
                     functions_mod.checkraise_kwargs, reward_fs.factory, transition_fs.factory, reset_fs.factory]):
        if ctx.shard == 0:
            shipped_file_checks(ctx)
        for i, (name, path, data) in enumerate(configs):
            if not ctx.mine(i):
                continue
            differential(ctx, name, path, data, [0 if (s == 0 and i % 2) else ctx.seed * 10 + s for s in range(ctx.pick(2, 24))], ctx.pick(150, 400))
            variation_checks(ctx, name, data, ctx.seed, ctx.pick(60, 150))
            if not ctx.out_of_time(0.8):
                corruption_checks(ctx, name, data)
            else:
                ctx.add('corruption_sets_skipped_for_time')
        component_factories(ctx, ctx.pick(12, 800))


def replay(ctx, kind, payload):
    configs = {n: (p, d) for n, p, d in compose.shipped_configs()}
    if kind == 'files':
        shipped_file_checks(ctx)
    elif kind == 'diff_case':
        p, d = configs[payload['file']]
        differential(ctx, payload['file'], p, d, [payload.get('seed', 0)], 300)
    elif kind == 'corrupt_case':
        p, d = configs[payload['file']]
        for cid, bad in corruptions(d):
            if cid == payload['corruption']:
                ok, res = call_real(factory_env_from_data, copy.deepcopy(bad))
                ctx.ev()
                if ok:
                    ctx.violation('reject', 'corruption.builds', f'[{cid}] builds', kind, payload)
                elif not isinstance(res, (schema_lib.SchemaError, ValueError)):
                    ctx.violation('reject', 'corruption.wrong_exception', f'[{cid}] -> {describe_exc(res)}', kind, payload)
    elif kind == 'factory_case':
        component_factories(ctx, 12)
    elif kind == 'variation_case':
        p, d = configs[payload['file']]
        variation_checks(ctx, payload['file'], d, 0, 100)
